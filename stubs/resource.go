//go:build ignore

// Assumed contracts for the client-supplied resource (code, templates, menu
// labels, external functions). The documented rule for implementers is that
// they return data and do not reach into the session: these contracts havoc
// nothing but their results. External function calls are counted by the ghost
// counter `extcalls` so that "at most once" / "not at all" can be stated.

package stubs

//@ iface (resource.Resource).GetCode
//@   params rs, ctx, sym
//@   modifies count(codegets)
//@   ensures count(codegets) == old(count(codegets)) + 1
// code handed out by the resource does not alias session memory (modelled as freshly allocated or nil)
//@   ensures result0 == nil || fresh(result0)

//@ iface (resource.Resource).GetTemplate
//@   params rs, ctx, sym

//@ iface (resource.Resource).GetMenu
//@   params rs, ctx, sym

//@ iface (resource.Resource).FuncFor
//@   params rs, ctx, sym

//@ iface (resource.Resource).Close
//@   params rs, ctx

//@ iface functype:resource.EntryFunc
//@   params ctx, sym, input
//@   modifies count(extcalls)
//@   ensures count(extcalls) == old(count(extcalls)) + 1
// premise of C06/C08: the flags an external function asks to change exist
// (the ghost constant `flagcount` stands for the session's flag count)
//@   ensures forall(i, 0, len(result0.FlagSet), int(result0.FlagSet[i]) < count(flagcount))
//@   ensures forall(i, 0, len(result0.FlagReset), int(result0.FlagReset[i]) < count(flagcount))
