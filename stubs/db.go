//go:build ignore

// Assumed contracts for the storage interface db.Db as seen by its clients
// (resource.DbResource): the selected data type and the "safe" state are ghost
// state per store object; reads do not change either.

package stubs

//@ gstate dbPfx(d int) int
//@ gstate dbSafeG(d int) bool

//@ iface (db.Db).SetPrefix
//@   params d, pfx
//@   modifies dbPfx[refOf(d)]
//@   ensures dbPfx(refOf(d)) == int(pfx)

//@ iface (db.Db).Safe
//@   params d
//@   ensures result == dbSafeG(refOf(d))

// reads are counted (`dbgets`), writes are counted (`dbputs`), and every read or
// write that reports an error is counted by `stfault`: any of them may fail
//@ iface (db.Db).Get
//@   params d, ctx, key
//@   modifies count(dbgets), count(stfault)
//@   ensures count(dbgets) == old(count(dbgets)) + 1
//@   ensures count(stfault) == old(count(stfault)) + ite(result1 != nil, 1, 0)

//@ iface (db.Db).Put
//@   params d, ctx, key, val
//@   modifies count(dbputs), count(stfault)
//@   ensures count(dbputs) == old(count(dbputs)) + 1
//@   ensures count(stfault) == old(count(stfault)) + ite(result != nil, 1, 0)

//@ iface (db.Db).Close
//@   params d, ctx
