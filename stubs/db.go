//go:build ignore

// Assumed contracts for the storage interface db.Db as seen by its clients
// (resource.DbResource): the selected data type and the "safe" state are ghost
// state per store object; reads do not change either.

package stubs

//@ gstate dbPfx(d int) int
//@ gstate dbSafeG(d int) bool

//@ iface (db.Db).SetPrefix
//@   params d, pfx
//@   modifies dbPfx[refOf(d)]
//@   ensures dbPfx(refOf(d)) == int(pfx)

//@ iface (db.Db).Safe
//@   params d
//@   ensures result == dbSafeG(refOf(d))

//@ iface (db.Db).Get
//@   params d, ctx, key

//@ iface (db.Db).Close
//@   params d, ctx
