//go:build ignore

// Assumed contracts for the Postgres driver interfaces (pgx) as used by
// db/postgres: transaction typestate only. A transaction handle is live from a
// successful BeginTx until its Commit or Rollback (either ends it, also when it
// reports an error); the ghost counter `txOpen` counts live transactions.
// The ghost counter `fault` counts the begin / statement / row-fetch / commit
// calls that reported an error (a failing Rollback is not counted: the operation
// that rolls back is already reporting its own error).
// Every driver call may fail: nothing below says that an error cannot happen,
// so every placement of a fault is covered by the callers' proofs (C13).

package stubs

//@ gstate txLive(tx int) bool

//@ iface (db/postgres.PgInterface).BeginTx
//@   params conn, ctx, opts
//@   modifies count(txOpen), txLive[ALL], count(fault)
//@   ensures count(fault) == old(count(fault)) + ite(result1 != nil, 1, 0)
//@   ensures result1 == nil ==> result0 != nil && !old(txLive(refOf(result0))) && txLive(refOf(result0)) && count(txOpen) == old(count(txOpen)) + 1
//@     && all[int](t, t != refOf(result0) ==> txLive(t) == old(txLive(t)))
//@   ensures result1 != nil ==> count(txOpen) == old(count(txOpen)) && all[int](t, txLive(t) == old(txLive(t)))

//@ iface (db/postgres.PgInterface).Close
//@   params conn

// Commit and Rollback end the transaction whatever they return.
//@ iface (github.com/jackc/pgx/v5.Tx).Commit
//@   params tx, ctx
//@   requires @live txLive(refOf(tx))
//@   modifies count(txOpen), txLive[refOf(tx)], count(fault)
//@   ensures count(fault) == old(count(fault)) + ite(result != nil, 1, 0)
// the driver's errors are its own: never the library's "no transaction" sentinel
//@   ensures result != db.ErrNoTx
//@   ensures !txLive(refOf(tx)) && count(txOpen) == old(count(txOpen)) - 1

//@ iface (github.com/jackc/pgx/v5.Tx).Rollback
//@   params tx, ctx
//@   requires @live txLive(refOf(tx))
//@   modifies count(txOpen), txLive[refOf(tx)]
//@   ensures !txLive(refOf(tx)) && count(txOpen) == old(count(txOpen)) - 1

// Statements run inside a live transaction and leave it live (also on error).
//@ iface (github.com/jackc/pgx/v5.Tx).Exec
//@   params tx, ctx, sql, arguments
//@   requires @live txLive(refOf(tx))
//@   modifies count(fault)
//@   ensures count(fault) == old(count(fault)) + ite(result1 != nil, 1, 0)

//@ iface (github.com/jackc/pgx/v5.Tx).Query
//@   params tx, ctx, sql, args
//@   requires @live txLive(refOf(tx))
//@   modifies count(fault)
//@   ensures count(fault) == old(count(fault)) + ite(result1 != nil, 1, 0)
//@   ensures result1 == nil ==> result0 != nil

//@ iface (github.com/jackc/pgx/v5.Rows).Next
//@   params rows
//@ iface (github.com/jackc/pgx/v5.Rows).Scan
//@   params rows, dest
//@   modifies count(fault)
//@   ensures count(fault) == old(count(fault)) + ite(result != nil, 1, 0)
//@ iface (github.com/jackc/pgx/v5.Rows).Close
//@   params rows
