//go:build ignore

// Assumed contracts for code outside the verified set (standard library and
// third-party packages). Every contract used in a run is listed in that run's
// evidence under trusted_base. Syntax as in /repo/*/contracts_verif.go.

package stubs

// Logging has no effect on the state any contract talks about and does not panic.
//@ noeffect logging.Logger
