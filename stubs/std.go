//go:build ignore

// Assumed contracts for code outside the verified set (standard library and
// third-party packages). Every contract used in a run is listed in that run's
// evidence under trusted_base. Syntax as in /repo/*/contracts_verif.go.

package stubs

// Logging has no effect on the state any contract talks about and does not panic.
//@ noeffect logging.Logger

// Regular expressions: matching is a pure function of the compiled expression
// and the subject; the module's three package-level expressions get their
// meaning from axioms next to their declaration (vm/contracts_verif.go).
//@ ufun reMatch(re int, s string) bool
//@ extern (*regexp.Regexp).Match
//@   ensures result == reMatch(re, str(b))

// UTF-8 is not modelled: a string of n bytes has between n/4 and n characters.
//@ extern unicode/utf8.RuneCountInString
//@   ensures result >= 0 && result <= len(s) && 4 * result >= len(s)
//@ extern unicode/utf8.RuneCount
//@   ensures result >= 0 && result <= len(p) && 4 * result >= len(p)

//@ extern bytes.HasPrefix
//@   ensures result == (len(prefix) <= len(s) && str(s[:min(len(prefix), len(s))]) == str(prefix))
//@ extern bytes.TrimSuffix
//@   ensures (len(suffix) <= len(s) && str(s[max(0, len(s) - len(suffix)):]) == str(suffix)) ==> result == s[:len(s) - len(suffix)]
//@   ensures !(len(suffix) <= len(s) && str(s[max(0, len(s) - len(suffix)):]) == str(suffix)) ==> result == s
//@ extern bytes.TrimPrefix
//@   ensures (len(prefix) <= len(s) && str(s[:min(len(prefix), len(s))]) == str(prefix)) ==> result == s[len(prefix):]
//@   ensures !(len(prefix) <= len(s) && str(s[:min(len(prefix), len(s))]) == str(prefix)) ==> result == s
//@ ufun pathBaseOf(p string) string
//@ extern path.Base
//@   ensures result == pathBaseOf(path)
//@ extern path/filepath.Base
//@   ensures result == pathBaseOf(path)

//@ extern bytes.Equal
//@   ensures result == (str(a) == str(b))

// The engine only accepts *cache.Cache ("memory MUST be *cache.Cache for now").
//@ devirt cache.Memory *cache.Cache

// ISO-639 table lookup: a pure function of the code; nil for unknown codes.
// The empty string is not a language code.
//@ ufun isoKnown(code string) bool
//@ axiom !isoKnown("")
//@ ufun isoPart3(code string) string
//@ ufun isoName(code string) string
//@ extern github.com/barbashov/iso639-3.FromAnyCode
//@   ensures (result != nil) == isoKnown(code)
//@   ensures result != nil ==> len(result.Part3) == 3 && result.Part3 == isoPart3(code) && result.Name == isoName(code)

// Contexts: a context is a finite map from (string) keys to values;
// WithValue returns a new context that differs from its parent at one key.
//@ extern context.WithValue
//@   params parent, key, val
//@   ensures result != nil
//@   ensures typeis[string](key) ==> ctxval(result, as[string](key)) == val
//@     && all[string](k, k != as[string](key) ==> ctxval(result, k) == ctxval(parent, k))
//@ iface (context.Context).Value
//@   params ctx, key
//@   ensures typeis[string](key) ==> result == ctxval(ctx, as[string](key))
//@ extern context.Background
//@   ensures result != nil

// Writers: bytes handed to the client are counted by the ghost counter `written`.
//@ extern io.WriteString
//@   params w, s
//@   modifies count(written)
//@   ensures result0 >= 0 && result0 <= len(s) && count(written) == old(count(written)) + result0
//@   ensures result1 == nil ==> result0 == len(s)

// bytes.Buffer by content (a ghost string per buffer); only appending writes are modelled
//@ gstate bufStr(b int) string
//@ extern bytes.NewBuffer
//@   ensures result != nil && fresh(result) && bufStr(refOf(result)) == str(buf)
//@ extern (*bytes.Buffer).Bytes
//@   params b
//@   ensures str(result) == bufStr(refOf(b))
//@ extern (*bytes.Buffer).String
//@   params b
//@   ensures result == bufStr(refOf(b))
//@ extern (*bytes.Buffer).Len
//@   params b
//@   ensures result == len(bufStr(refOf(b)))
//@ extern (*bytes.Buffer).WriteString
//@   params b, s
//@   modifies bufStr[refOf(b)]
//@   ensures bufStr(refOf(b)) == old(bufStr(refOf(b))) + s && result0 == len(s) && result1 == nil
// (the clauses for 1..4 bytes are instances of the first one, spelled out byte by byte)
//@ extern (*bytes.Buffer).Write
//@   params b, p
//@   modifies bufStr[refOf(b)]
//@   ensures bufStr(refOf(b)) == old(bufStr(refOf(b))) + str(p) && result0 == len(p) && result1 == nil
//@   ensures len(p) == 1 ==> bufStr(refOf(b)) == old(bufStr(refOf(b))) + chr(int(p[0]))
//@   ensures len(p) == 2 ==> bufStr(refOf(b)) == old(bufStr(refOf(b))) + chr(int(p[0])) + chr(int(p[1]))
//@   ensures len(p) == 3 ==> bufStr(refOf(b)) == old(bufStr(refOf(b))) + chr(int(p[0])) + chr(int(p[1])) + chr(int(p[2]))
//@   ensures len(p) == 4 ==> bufStr(refOf(b)) == old(bufStr(refOf(b))) + chr(int(p[0])) + chr(int(p[1])) + chr(int(p[2])) + chr(int(p[3]))

// The engine's optional debugger only observes.
//@ noeffect engine.Debug

// Hex encoding is an injective function of the bytes; only the empty input gives the empty string.
//@ ufun hexenc(s string) string
//@ axiom all[string](a, all[string](b, hexenc(a) == hexenc(b) ==> a == b))
//@ axiom all[string](a, (hexenc(a) == "") == (a == ""))
//@ extern encoding/hex.EncodeToString
//@   ensures result == hexenc(str(src))

// ---- file system (ghost state functions; process-crash semantics are stated at the call sites, see db/fs) ----
//@ gstate fsExists(path string) bool
//@ gstate fsContent(path string) string
//@ ufun fileOf(f int) string
//@ ufun pjoin(dir string, name string) string
//@ ufun b64enc(s string) string
// the last element of a joined path
//@ ufun pbase(p string) string
//@ axiom all[string](d, all[string](a, pbase(pjoin(d, a)) == a))
// distinct names in one directory give distinct paths (names are storage keys without '/' : premise of C10/C11)
//@ axiom all[string](d, all[string](a, all[string](b, pjoin(d, a) == pjoin(d, b) ==> a == b)))
//@ axiom all[string](d, all[string](a, pjoin(d, a) != ""))
//@ axiom all[string](a, all[string](b, b64enc(a) == b64enc(b) ==> a == b))

//@ extern path.Join
//@   params elem
//@   ensures len(elem) == 2 ==> result == pjoin(elem[0], elem[1])

//@ extern (*encoding/base64.Encoding).EncodeToString
//@   ensures result == b64enc(str(src))

//@ extern os.Open
//@   ensures result1 == nil ==> result0 != nil && fsExists(name) && fileOf(result0) == name
//@   ensures result1 != nil ==> result0 == nil
// a name that does not exist is reported as such, and only such a name is
// (other failure modes of open(2) on a missing name are not modelled)
//@   ensures !fsExists(name) ==> result1 != nil && errIs(result1, io_fs.ErrNotExist)
//@   ensures result1 != nil && errIs(result1, io_fs.ErrNotExist) ==> !fsExists(name)

//@ extern (*os.File).Close
//@   params f

//@ extern io/ioutil.ReadAll
//@   ensures result1 == nil && typeis[*os.File](r) ==> str(result0) == fsContent(fileOf(as[*os.File](r)))

// WriteFile creates or truncates the file and then writes: on success the file holds exactly the data.
//@ extern io/ioutil.WriteFile
//@   modifies fsExists[filename], fsContent[filename]
//@   ensures result == nil ==> fsExists(filename) && fsContent(filename) == str(data)

//@ extern os.Stat
//@   ensures result1 == nil ==> fsExists(name)
//@   ensures !fsExists(name) ==> result1 != nil && errIs(result1, io_fs.ErrNotExist)
//@   ensures result1 != nil && errIs(result1, io_fs.ErrNotExist) ==> !fsExists(name)

//@ extern os.WriteFile
//@   modifies fsExists[name], fsContent[name]
//@   ensures result == nil ==> fsExists(name) && fsContent(name) == str(data)

// Temporary files: the name chosen by CreateTemp is a function of the pattern and a
// ghost counter; it lies in the given directory and starts like the pattern.
//@ ufun tmpBase(pattern string, n int) string
//@ axiom all[string](p, all[int](n, len(p) >= 1 ==> len(tmpBase(p, n)) >= 1 && tmpBase(p, n)[0] == p[0]))
//@ extern os.CreateTemp
//@   params dir, pattern
//@   modifies count(tmpfiles), fsExists[pjoin(dir, tmpBase(pattern, count(tmpfiles)))], fsContent[pjoin(dir, tmpBase(pattern, count(tmpfiles)))]
//@   ensures count(tmpfiles) == old(count(tmpfiles)) + 1
//@   ensures result1 == nil ==> result0 != nil && fileOf(result0) == pjoin(dir, tmpBase(pattern, old(count(tmpfiles))))
//@     && fsExists(fileOf(result0)) && fsContent(fileOf(result0)) == ""
//@   ensures result1 != nil ==> result0 == nil && fsExists(pjoin(dir, tmpBase(pattern, old(count(tmpfiles))))) == old(fsExists(pjoin(dir, tmpBase(pattern, count(tmpfiles)))))
//@     && fsContent(pjoin(dir, tmpBase(pattern, old(count(tmpfiles))))) == old(fsContent(pjoin(dir, tmpBase(pattern, count(tmpfiles)))))
//@ extern (*os.File).Name
//@   params f
//@   ensures result == fileOf(f)
// Write appends (files here are written once, from the start); a failed write may have written a part.
//@ extern (*os.File).Write
//@   params f, b
//@   modifies fsContent[fileOf(f)]
//@   ensures result1 == nil ==> fsContent(fileOf(f)) == old(fsContent(fileOf(f))) + str(b)
// Rename is atomic: the new name holds the old file's content, or nothing happened.
//@ extern os.Rename
//@   params oldpath, newpath
//@   modifies fsExists[oldpath], fsExists[newpath], fsContent[newpath]
//@   ensures result == nil ==> fsExists(newpath) && fsContent(newpath) == old(fsContent(oldpath)) && (oldpath != newpath ==> !fsExists(oldpath))
//@   ensures result != nil ==> fsExists(oldpath) == old(fsExists(oldpath)) && fsExists(newpath) == old(fsExists(newpath)) && fsContent(newpath) == old(fsContent(newpath))
//@ extern os.Remove
//@   modifies fsExists[name]
//@   ensures result != nil ==> fsExists(name) == old(fsExists(name))

//@ extern os.MkdirAll

// ---- strings.Builder, by length and last byte (contents are not modelled) ----
//@ gstate sbLen(b int) int
//@ gstate sbLast(b int) int
//@ extern (*strings.Builder).WriteString
//@   params b, s
//@   modifies sbLen[refOf(b)], sbLast[refOf(b)]
//@   ensures sbLen(refOf(b)) == old(sbLen(refOf(b))) + len(s) && result0 == len(s) && result1 == nil
//@   ensures len(s) > 0 ==> sbLast(refOf(b)) == int(s[len(s) - 1])
//@   ensures len(s) == 0 ==> sbLast(refOf(b)) == old(sbLast(refOf(b)))
//@ extern (*strings.Builder).WriteByte
//@   params b, c
//@   modifies sbLen[refOf(b)], sbLast[refOf(b)]
//@   ensures sbLen(refOf(b)) == old(sbLen(refOf(b))) + 1 && sbLast(refOf(b)) == int(c) && result == nil
// (only ASCII runes are written by the code under contract)
//@ extern (*strings.Builder).WriteRune
//@   params b, r
//@   requires r >= 0 && r < 128
//@   modifies sbLen[refOf(b)], sbLast[refOf(b)]
//@   ensures sbLen(refOf(b)) == old(sbLen(refOf(b))) + 1 && sbLast(refOf(b)) == int(r) && result0 == 1 && result1 == nil
//@ extern (*strings.Builder).Len
//@   params b
//@   ensures result == sbLen(refOf(b))
//@ extern (*strings.Builder).Reset
//@   params b
//@   modifies sbLen[refOf(b)], sbLast[refOf(b)]
//@   ensures sbLen(refOf(b)) == 0
//@ extern (*strings.Builder).String
//@   params b
//@   ensures len(result) == sbLen(refOf(b)) && (len(result) > 0 ==> int(result[len(result) - 1]) == sbLast(refOf(b)))

// TrimRight with a one-character cutset: a prefix; nothing is cut when the last byte is not the character.
//@ extern strings.TrimRight
//@   ensures len(result) <= len(s)
//@   ensures len(cutset) == 1 && len(s) > 0 && s[len(s) - 1] != cutset[0] ==> result == s
//@   ensures len(cutset) == 1 && len(result) > 0 ==> result[len(result) - 1] != cutset[0]

// Index of a one-byte separator: the first occurrence or -1.
//@ extern strings.Index
//@   ensures result >= -1 && result < max(len(s), 1) && (len(substr) > 0 && result >= 0 ==> result + len(substr) <= len(s))
//@   ensures len(substr) == 1 && result >= 0 ==> s[result] == substr[0] && forall(i, 0, result, s[i] != substr[0])
//@   ensures len(substr) == 1 && result < 0 ==> forall(i, 0, len(s), s[i] != substr[0])

// ReplaceAll of one byte by one byte keeps the length.
//@ extern bytes.ReplaceAll
//@   ensures fresh(result) || result == nil
//@   ensures len(old) == len(new) ==> len(result) == len(s)
// a zero Builder is empty
//@ zerovalue strings.Builder sbLen(refOf(x)) == 0

// decimal rendering of an unsigned integer: a pure function; between 1 and 20 digits
//@ ufun decimalOf(n int) string
//@ axiom all[int](n, len(decimalOf(n)) >= 1 && len(decimalOf(n)) <= 20)
//@ extern strconv.FormatUint
//@   ensures base == 10 ==> result == decimalOf(int(i))


//@ extern bytes.TrimSpace
//@   ensures len(result) <= len(s) && (result == nil || sameBacking(result, s))

// text/template as used by the renderer: parsing and execution are arbitrary as far as
// the contracts go (either may fail; the text produced is unconstrained: whatever is
// written goes into the buffer's ghost content). A template handed out without an error
// is non-nil. Neither touches anything but the buffer it writes to.
//@ extern text/template.New
//@   ensures result != nil
//@ extern (*text/template.Template).Option
//@   params t, opt
//@   ensures result != nil
//@ extern (*text/template.Template).Parse
//@   params t, text
//@   ensures result1 == nil ==> result0 != nil
//@ extern (*text/template.Template).Execute
//@   params t, wr, data
//@   modifies bufStr[ALL]
// an error value's message is an unconstrained string; asking for it changes nothing
//@ iface (error).Error
//@   params e
