#!/bin/bash
# usage: tools/recheck_seeds.sh [seed-id ...]
# Re-runs the property check against every stored seeded change (patch applied to
# /repo, undone straight afterwards) and refreshes check_result in its meta.json.
# /repo must have no uncommitted changes.
set -u
cd "$(dirname "$0")/.." || exit 2
export GOFLAGS=-mod=mod GOPROXY=off GOSUMDB=off GOTOOLCHAIN=local
[ -z "$(git -C /repo status --porcelain)" ] || { echo "/repo has uncommitted changes"; exit 2; }
ids=${@:-$(ls seeded)}
for id in $ids; do
  d=seeded/$id; [ -f $d/patch.diff ] || continue
  prop=$(python3 -c "import json;print(json.load(open('$d/meta.json'))['property'])")
  git -C /repo apply /verif/$d/patch.diff || { echo "$id: patch does not apply"; continue; }
  out=$(VCGO_SCRATCH=1 ./check $prop quick 2>&1); rc=$?
  git -C /repo checkout -- .
  viol=$(echo "$out" | grep -c "^VIOLATION property=$prop")
  python3 - "$d/meta.json" "$rc" "$viol" "$(echo "$out" | grep '^failed obligation' | head -6)" <<'PY'
import json,sys
p,rc,viol,failed=sys.argv[1:5]
m=json.load(open(p))
m["check_result"]={"exit":int(rc),"violation_lines":int(viol),"failed_obligations":failed.split("\n") if failed else []}
m["detected"]=int(viol)>0
json.dump(m,open(p,'w'),indent=1)
PY
  echo "$id ($prop): rc=$rc violations=$viol $(echo "$out" | grep '^failed obligation' | head -2 | cut -c19-120 | tr '\n' ';')"
done
