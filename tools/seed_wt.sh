#!/bin/bash
# (variant of seed.sh: the check runs against the scratch worktree that holds the change, /repo is not touched)
# usage: tools/seed_wt.sh <property> <source-dir-with-patch.diff,demo_test.go,notes.md> <seed-id> "<needs>"
# Confirms a seeded change in a scratch worktree (suite passes, demo fails with / passes without),
# runs the property's check against it in /repo (applied and undone straight afterwards),
# and stores it under /verif/seeded/<seed-id>/.
set -u
prop=$1; src=$2; id=$3; needs=${4:-}
export GOFLAGS=-mod=mod GOPROXY=off GOSUMDB=off GOTOOLCHAIN=local
PK="./vm/ ./engine/ ./state/ ./cache/ ./render/ ./persist/ ./resource/ ./asm/ ./db/ ./db/mem/ ./db/fs/ ./db/postgres/ ./lang/ ./logging/"
wt=$(mktemp -d /tmp/confirm-XXXX); rmdir $wt
git -C /repo worktree add -q --detach $wt HEAD || exit 2
trap 'git -C /repo worktree remove --force '$wt' 2>/dev/null' EXIT
place=$(head -1 $src/demo_test.go | sed -n 's|.*place in: *\([^ ]*\).*|\1|p')
[ -n "$place" ] || { echo "no 'place in:' line in demo"; exit 2; }
pkgdir=$(dirname $place)
# 1. demo passes without the change
cp $src/demo_test.go $wt/$place
base=$(cd $wt && go test -vet=off -count=1 ./$pkgdir/ 2>&1 | tail -3)
echo "$base" | grep -q "^ok" && demo_without=pass || demo_without=FAIL
# 2. apply, suite passes (without the demo), demo fails
rm $wt/$place
(cd $wt && git apply $src/patch.diff) || { echo "patch does not apply"; exit 2; }
suite=$(cd $wt && go test -vet=off -count=1 $PK 2>&1 | grep -v "^ok\|no test files" | head -5)
[ -z "$suite" ] && suite_with=pass || suite_with="FAIL: $suite"
cp $src/demo_test.go $wt/$place
with=$(cd $wt && go test -vet=off -count=1 ./$pkgdir/ 2>&1 | tail -3)
echo "$with" | grep -q "^ok" && demo_with=pass || demo_with=fail
echo "confirm: suite_with_change=$suite_with demo_without=$demo_without demo_with_change=$demo_with"
# 3. run the check against it
cd /verif
rm -f $wt/$place
out=$(VCGO_SCRATCH=1 bin/vcgo check -prop $prop -tier quick -repo $wt -no-evidence 2>&1); rc=$?
viol=$(echo "$out" | grep -c "^VIOLATION property=$prop")
echo "check $prop: rc=$rc violations=$viol"
echo "$out" | grep "^failed obligation" | head -4 | cut -c1-220
mkdir -p seeded/$id
cp $src/patch.diff seeded/$id/patch.diff
cp $src/demo_test.go seeded/$id/demo_test.go
[ -f $src/notes.md ] && cp $src/notes.md seeded/$id/notes.md
python3 - "$prop" "$id" "$needs" "$suite_with" "$demo_without" "$demo_with" "$rc" "$viol" "$place" <<'PY' "$(echo "$out" | grep '^failed obligation' | head -6)"
import json,sys
prop,id,needs,suite,dw,dwith,rc,viol,place,failed=sys.argv[1:11]
json.dump({"property":prop,"seed":id,"breaks":prop,"needs_to_manifest":needs,
 "demo_location":place,
 "confirmed":{"suite_passes_with_change":suite=="pass","demo_passes_without_change":dw=="pass","demo_fails_with_change":dwith=="fail"},
 "ran":["git worktree add <scratch>; go test (14 packages) with the change; demo with and without the change","vcgo check -prop %s -tier quick -repo <scratch worktree with the patch> -no-evidence"%prop],
 "check_result":{"exit":int(rc),"violation_lines":int(viol),"failed_obligations":failed.split("\n") if failed else []},
 "detected":int(viol)>0}, open('/verif/seeded/%s/meta.json'%id,'w'), indent=1)
PY
