#!/bin/bash
# usage: tools/recheck_seeds_wt.sh [seed-id ...]
# Like recheck_seeds.sh, but each seeded change is applied to a scratch worktree of /repo's HEAD
# (removed afterwards) and the check runs against that worktree: /repo itself is not touched.
# Prints one line per seed; does not rewrite meta.json unless UPDATE_META=1.
set -u
cd "$(dirname "$0")/.." || exit 2
export GOFLAGS=-mod=mod GOPROXY=off GOSUMDB=off GOTOOLCHAIN=local
go build -o bin/vcgo ./cmd/vcgo || exit 2
ids=${@:-$(ls seeded)}
miss=0; n=0
for id in $ids; do
  d=seeded/$id; [ -f $d/patch.diff ] || continue
  prop=$(python3 -c "import json;print(json.load(open('$d/meta.json'))['property'])")
  wt=$(mktemp -d /tmp/reseed-XXXX); rmdir $wt
  git -C /repo worktree add -q --detach $wt HEAD || continue
  if ! git -C $wt apply $PWD/$d/patch.diff 2>/dev/null; then echo "$id: patch does not apply"; git -C /repo worktree remove --force $wt; continue; fi
  out=$(VCGO_SCRATCH=1 bin/vcgo check -prop $prop -tier quick -repo $wt -no-evidence 2>&1); rc=$?
  git -C /repo worktree remove --force $wt
  viol=$(echo "$out" | grep -c "^VIOLATION property=$prop")
  n=$((n+1)); [ "$viol" -gt 0 ] || miss=$((miss+1))
  if [ "${UPDATE_META:-}" = 1 ]; then
  python3 - "$d/meta.json" "$rc" "$viol" "$(echo "$out" | grep '^failed obligation' | head -6)" <<'PY'
import json,sys
p,rc,viol,failed=sys.argv[1:5]
m=json.load(open(p))
m["check_result"]={"exit":int(rc),"violation_lines":int(viol),"failed_obligations":failed.split("\n") if failed else []}
m["detected"]=int(viol)>0
json.dump(m,open(p,'w'),indent=1)
PY
  fi
  echo "$id ($prop): rc=$rc violations=$viol $(echo "$out" | grep '^failed obligation' | head -2 | cut -c19-120 | tr '\n' ';')"
done
echo "reseed: $n seeds, not detected=$miss"
