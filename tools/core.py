#!/usr/bin/env python3
"""Debug aid: print the unsat core of a vcgo query (which assumptions a proof used).
usage: core.py file.smt2 [timeout-seconds]"""
import sys, subprocess, re, tempfile
src = open(sys.argv[1]).read().split('\n')
to = sys.argv[2] if len(sys.argv) > 2 else '30'
out = ['(set-option :produce-unsat-cores true)']
names = {}
n = 0
for l in src:
    if l.startswith('(assert '):
        n += 1
        nm = 'a%d' % n
        names[nm] = l
        out.append('(assert (! %s :named %s))' % (l[len('(assert '):-1], nm))
    elif l.startswith('(get-value') or l.startswith('(set-option :produce-models'):
        continue
    else:
        out.append(l)
out.append('(get-unsat-core)')
with tempfile.NamedTemporaryFile('w', suffix='.smt2', delete=False) as f:
    f.write('\n'.join(out))
r = subprocess.run(['z3-new', '-T:' + to, f.name], capture_output=True, text=True).stdout
print(r.split('\n')[0])
m = re.search(r'\(([a0-9 ]+)\)', r)
if m:
    for nm in m.group(1).split():
        print(nm, names[nm][:400])
