#!/bin/bash
# usage: tools/harmless_wt.sh <dir-with-patch.diff,notes.md> <id> "<props>"
# Like harmless.sh, but the behaviour-preserving edit is applied to a scratch worktree of
# /repo's HEAD (removed afterwards) and the checks run against that worktree.
# Any VIOLATION here is a false alarm of the machinery.
set -u
src=$1; id=$2; props=$3
cd "$(dirname "$0")/.." || exit 2
export GOFLAGS=-mod=mod GOPROXY=off GOSUMDB=off GOTOOLCHAIN=local
wt=$(mktemp -d /tmp/harm-XXXX); rmdir $wt
git -C /repo worktree add -q --detach $wt HEAD || exit 2
trap 'git -C /repo worktree remove --force '$wt' 2>/dev/null' EXIT
git -C $wt apply $src/patch.diff || { echo "$id: patch does not apply"; exit 2; }
mkdir -p harmless/$id
cp $src/patch.diff harmless/$id/patch.diff
[ -f $src/notes.md ] && cp $src/notes.md harmless/$id/notes.md
res=""; alarms=0
for p in $props; do
  out=$(VCGO_SCRATCH=1 bin/vcgo check -prop $p -tier quick -repo $wt -no-evidence 2>&1); rc=$?
  v=$(echo "$out" | grep -c "^VIOLATION")
  [ $rc -ne 0 ] && alarms=$((alarms+1))
  res="$res$p:rc=$rc,violations=$v;"
  [ $rc -ne 0 ] && echo "$out" | grep "^failed obligation\|^UNDECIDED" | head -3 | cut -c1-220
done
python3 - "$id" "$res" "$alarms" <<'PY'
import json,sys
id,res,alarms=sys.argv[1:4]
json.dump({"edit":id,"checks":{x.split(':')[0]:x.split(':')[1] for x in res.split(';') if x},"false_alarms":int(alarms)},open('/verif/harmless/%s/result.json'%id,'w'),indent=1)
PY
echo "$id: $res alarms=$alarms"
