#!/bin/bash
# usage: tools/harmless.sh <dir-with-patch.diff,notes.md> <id> "<props>"
# Applies a behaviour-preserving edit to /repo, runs the given properties' quick checks
# (VCGO_SCRATCH=1: no evidence written), undoes the edit, and stores the edit with the
# result under /verif/harmless/<id>/. Any VIOLATION here is a false alarm of the machinery.
set -u
src=$1; id=$2; props=$3
cd "$(dirname "$0")/.." || exit 2
[ -z "$(git -C /repo status --porcelain)" ] || { echo "/repo has uncommitted changes"; exit 2; }
git -C /repo apply $src/patch.diff || { echo "$id: patch does not apply"; exit 2; }
mkdir -p harmless/$id
cp $src/patch.diff harmless/$id/patch.diff
[ -f $src/notes.md ] && cp $src/notes.md harmless/$id/notes.md
res=""
alarms=0
for p in $props; do
  out=$(VCGO_SCRATCH=1 ./check $p quick 2>&1); rc=$?
  v=$(echo "$out" | grep -c "^VIOLATION")
  [ $rc -ne 0 ] && alarms=$((alarms+1))
  res="$res$p:rc=$rc,violations=$v;"
  [ $rc -ne 0 ] && echo "$out" | grep "^failed obligation" | head -3 | cut -c1-220
done
git -C /repo checkout -- .
python3 - "$id" "$res" "$alarms" <<'PY'
import json,sys
id,res,alarms=sys.argv[1:4]
json.dump({"edit":id,"checks":{x.split(':')[0]:x.split(':')[1] for x in res.split(';') if x},"false_alarms":int(alarms)},open('/verif/harmless/%s/result.json'%id,'w'),indent=1)
PY
echo "$id: $res alarms=$alarms"
