#!/usr/bin/env python3
# Regenerates MANIFEST.json from the table below (keeps it valid at all times).
import json, subprocess
props = [json.loads(l) for l in open('/verif/properties.jsonl')]
ids = [p['id'] for p in props]

TECH = "contract-based deductive verification: requires/ensures/invariant contracts on the real functions, verification conditions generated from go/ssa by vcgo, discharged by z3/cvc5"

claimed = {
 "C01": dict(
   text="Proof of the size chain for every output size, template, menu and index: Sizer.Check is exact (fits iff outputSize == 0 or len <= outputSize), Page.render returns only strings that passed it, Page.Render and Vm.Render return only render's result (or \"\"), NewSizer/setupVm give the VM's sizer exactly Config.OutputSize, and Engine.Flush's written-byte counter (ghost) stays within OutputSize.",
   note="Known finding H10 (exit value appended after the checked page). RenderTemplate, Menu.Render and Page.prepare have assumed frame-only contracts (their output is arbitrary and checked afterwards); io.WriteString assumed to write at most len(s). Verified for pages with a menu object (always the case under the VM).",
   ref="4/C01"),
 "C17": dict(
   text="Proof for the initialised engine that a request refused by the format check (counted by a ghost counter on ValidInput) or by the length limit returns an error with position, flags, cache levels, pending code, stored input and external/code call counters unchanged, provided the previous output was delivered (idle engine); Flush without a preceding Exec returns ErrFlushNoExec and changes nothing.",
   note="The first request of an engine (every request in engine-per-request operation) goes through the same proof: init/Exec are verified for fresh and initialised engines; of the setup, ensureState and ensureMemory are verified, preparePersist/ensurePersist (persister, cbor) are assumed to deliver a well-formed state and cache. One premise is stated at the SetInput call sites: the request's input buffer is not the session's flag array. ValidInput's regex matching is assumed to be a pure function of the input (its text is pinned). Trusted: vcgo translation, solvers.",
   ref="4/C17"),
 "C03": dict(
   text="Proof that INCMP routing follows the statement for every flag/input/selector combination: runInCmp's contract (ignored once INMATCH is set, READIN set on a miss, exactly one applyTarget on a hit, IndexError on '<' at index 0 counts as no match), runDeadCheck's contract (unmatched input becomes MOVE _catch with an InvalidInputError carrying that input), and a call-site assertion inside Run's loop that INMATCH is clear whenever execution resumes from a HALT. Induction over instructions is Run's loop invariant.",
   note="Known finding H19 (duplicate selector moves twice) is reported, not hidden. Premises assumed at call sites: no move into the current node. Resource callbacks havoc only their results. Trusted: regex meaning axioms, decoder contracts, vcgo translation, solvers.",
   ref="4/C03"),
 "C04": dict(
   text="Proof that applyTarget implements the documented move table for every target and every stack (moveTable predicate: named node, '_', '^', '.', '>', '<' incl. the failing cases), that the State methods and Rewind (loop invariant) do what the table needs, and that runMove, runInCmp and runCatch change the position only through one applyTarget with the instruction's own target.",
   note="Regex meaning of node/control targets assumed (axioms); premises: no move into the current node. A module-wide audit (fieldwriters) shows that only the State methods store to ExecPath/SizeIdx (stores by reflection in the cbor decoder are not visible to it). Trusted: vcgo translation, solvers.",
   ref="4/C04"),
 "C05": dict(
   text="Proof over runLoad/runReload/runMap/refresh/Page.Map/Vm.Reset and the cache contracts: LOAD calls the external function at most once and not at all while the symbol is visible (ghost call counter), stores under uint16(size) at the current scope, a rejected value is neither stored nor mapped; RELOAD calls exactly once and maps the stored value; every successful MOVE/INCMP move leaves the mapping table empty; at every resume the renderer is reset (call-site assertion in Run).",
   note="Reduced: CATCH does not reset mappings (H21, by reading; not claimed); scope lifetime on ascent follows from applyTarget/Pop contracts. Resource functions assumed to have no effect on session state. Trusted: vcgo translation, solvers.",
   ref="4/C05"),
 "C06": dict(
   text="Proof of the flag contracts at bit level for all indices (Set/Reset/Get/MatchFlag), of IsWriteableFlag (> 5), that refresh leaves flags 0..5 unchanged for every FlagSet/FlagReset list (loop invariants), that CATCH moves exactly when flag state equals mode and CROAK empties the code under the same test, and that Run decodes nothing and changes nothing while TERMINATE is set (call-site gate + blocked postcondition).",
   note="Premise: flag numbers returned by external code and used in CATCH/CROAK are below the session's flag count. Engine side: exec stops on TERMINATE; runFirst (entry function) does not call out while TERMINATE is set; known finding H24 (runFirst clears a TERMINATE it did not raise). One postulate (runFirst keeps the engine's own VM intact). Trusted: vcgo translation, 8-bit decomposition facts, solvers.",
   ref="4/C06"),
 "C08": dict(
   text="Proof of the session invariant as Run's loop invariant (VM object consistent, cache scopes distinct/unique/sized, mapping table separate, one cache scope per navigation level) preserved by all twelve instruction handlers, plus automatic no-panic obligations (nil, bounds, nil map, type assertion, explicit panic) in every function of the slice (1500+ obligations).",
   note="Known findings H22a-c (deliberate panic beyond MaxLevel) and H23 (CROAK breaks lock-step) are reported. Premises as in C03/C06. Byte accounting is proved per cache method in C09 (private to package cache). Engine/render request path beyond Vm.Run not yet covered. Trusted: vcgo translation, stubs for std/third-party, solvers.",
   ref="4/C08"),
 "C20": dict(
   text="Proof that runDeadCheck sets TERMINATE exactly when code runs out outside input handling, that Run is a no-op while TERMINATE is set (blocked postcondition + decode gate), and of the engine-side transitions: setCode remembers the exit value exactly when output is pending at the end of code, exec stops on TERMINATE, Flush after the final output unwinds the whole stack, releases the cache scopes and clears TERMINATE and DIRTY while keeping the client flags (reset's loop invariant).",
   note="init/Exec are verified for the first and for later requests of an engine; of the first-time setup, ensureState and ensureMemory are verified, the persister part (preparePersist, ensurePersist: cbor) is assumed to deliver a well-formed state and cache. Trusted: vcgo translation, resource/render stubs, solvers.",
   ref="4/C20"),
 "C09": dict(
   text="Proof over every Cache method (NewCache, Add, Update, Get, Push, Pop, Reset, frameOf, checkCapacity, ReservedSize, Last, Levels) that the representation invariant is preserved for all inputs: scopes are distinct maps, a symbol lives in at most one scope, every live symbol has a limit, CacheUseSize equals the summed length of all stored values (mod 2^32) and that sum never exceeds the capacity; values over their limit are rejected for every length, rejected calls change nothing, Pop/Reset release exactly the bytes of the scopes they drop. Loops (map ranges, scope scan) are cut by inductive invariants.",
   note="Assumes capacity + value length < 2^32 (precondition). Trusted: vcgo translation, sum lemma library (split/unit/congruence instances named by `use` clauses), generator-instantiated per-map sum update lemmas, logging no-effect, solvers. Keys()/Check()/Invalidate not under contract.",
   ref="4/C09"),
 "C14": dict(
   text="Proof that the VM encoder NewLine and the VM decoders are exact inverses for the opcode and the (up to two) symbol arguments: contracts give NewLine's output layout and each decoder's exact result, and lemma functions (real Go under the tag) that encode with the real NewLine and decode with the real opSplit/parseSym/parseTwoSym are verified for every opcode, every symbol of 1..255 bytes and every program prefix.",
   note="The assembler's string and integer writers agree with the VM's decoders: lemma functions (real Go under the tag) write with the real asm.writeSym/writeSize and decode with the real vm.ParseLoad/ParseInCmp/ParseCatch, verified for every symbol of 1..255 bytes and every 32-bit size/signal value. numSize (floating point) is assumed here and checked for all 2^32-1 arguments by C16's thorough bounded run. Not covered: the text the disassembler prints (ToString formatting); NewLine's byteargs/numargs are appended as given (callers encode). Trusted: vcgo translation, BigEndian and bytes.Buffer stubs, string theory axioms (extensionality instances), solvers.",
   ref="4/C14"),
 "C15": dict(
   text="Proof, for every byte string, that the VM's instruction decoders (opSplit, instructionSplit, intSplit, parseSym/TwoSym/SymLen/SymSig/Sig) never panic (automatic bounds/nil obligations) and return nil error only when a complete, valid argument group was consumed (postconditions over the real code's SSA); and that the disassembler loop ParseAll consumes exactly one complete valid instruction per iteration, refuses undefined opcodes and passes every decoder error on.",
   note="Four genuine defects repaired (fix: e1ebf5a, b205a62 decoders; 549a922 the disassembler swallowed the argument decoders' errors - found when ParseAll was put under contract: a per-iteration `step` obligation says that every completed iteration consumed exactly one complete valid instruction, so a nil error means the whole input is a sequence of them, by induction over iterations). The handler callbacks of the disassembler are function values: assumed not to touch the bytecode. The text ToString produces is not under contract. Trusted: vcgo's SSA-to-SMT translation, fmt.Errorf/encoding/binary stubs, lengths < 2^31, solver unsat answers.",
   ref="4/C15"),
 "C10": dict(
   text="Proof for the memory and filesystem backends that the code implements the keyed-map view: the storage key is exactly type byte + (session prefix for session-scoped types) + key (+ '_' + language code for translatable types with a language from the store or the context) (ToSessionKey, ToDbKey, ToKey and the fs/mem overrides, with frames that touch only spare capacity, so a lookup cannot alter the session prefix); Put is refused while the data type is locked and then changes nothing, otherwise writes exactly the record of the translation key if a language applies, else of the default key; Get returns the translation record if present, else the default record, else an error of type ErrNotFound; SetLock/CheckPut/Safe are proved at bit level for all 256 type masks, sealing is irreversible. The file system is a ghost map path -> (exists, content) behind assumed contracts for os.Open/ReadAll/WriteFile/path.Join.",
   note="Known finding H12 (the filesystem backend's legacy fallback name answers a never-written key with another record). Not covered: the Postgres backend's value semantics (its transaction handling is C13), Dump/listing on the filesystem backend, DbResource.mustSafe. Premises: key, value and session-prefix slices do not share a backing array; data type byte < 208. Trusted: hex/base64/path.Join injective (axioms), OS stubs, vcgo translation, solvers.",
   ref="4/C10"),
 "C12": dict(
   text="Proof over fsDb.Put and fsDb.writeFile that a save reaches the record of (type, session, key, language) only through one atomic rename of a temporary file that already holds the complete new value: call-site assertions show that every primitive that is not atomic (CreateTemp, File.Write, Remove) is applied to the temporary name only and that the renamed file's content equals the value; the frame shows that no other path changes (other sessions' records untouched); a failed Put leaves the record exactly as it was (all-or-nothing postcondition). Any in-place WriteFile on the record path fails a named call-site obligation (this is how the original defect was found).",
   note="Genuine defect repaired (fix: 011f25a): Put used ioutil.WriteFile on the record itself. Crash model: process death between or inside system calls; rename(2) atomic; no power loss (no fsync obligation). With complete records a reload after a crash deserialises, so ensurePersist's fallback to Save on any Load error is not reached by a crash; that fallback for other error causes is outside the statement and not under contract. Trusted: OS stubs (CreateTemp name = function of pattern and a ghost counter, starts like the pattern; record names never start with '.'), vcgo translation, solvers.",
   ref="4/C12"),
 "C11": dict(
   text="Two layers. (a) Contracts bind the real key derivation to spec functions: ToSessionKey/ToDbKey/ToKey (and the mem/fs overrides, pathFor/altPathFor) produce exactly type byte + (session prefix for session-scoped types) + key (+ language suffix), SetSession makes the prefix id + '.', Put/Get of the memory and filesystem backends write/read exactly the record of that key. (b) Lemmas over the same spec functions, for all data types, session ids and keys (unbounded strings, decided over the solvers' native string theory): storage keys of different data types are never equal; within a session-scoped type, different (session, key) pairs never share a storage key provided both session ids are non-empty and contain no '.'.",
   note="Known findings: H11 (session id or key containing '.', or the empty session id, address another session's record - the lemma's failing part, with the solver's string model) and H12b (filesystem legacy fallback name crosses data types). Postgres backend: key derivation is the shared ToKey; its Get/Put are covered by C13 only as far as transactions go. Listing (Dump) not covered. Trusted: the lowering of the spec string functions to SMT-LIB strings (define-funs in vcgo), hex/base64/path.Join injective, OS stubs, solvers.",
   ref="4/C11"),
 "C13": dict(
   text="Proof of transaction hygiene of the Postgres backend against a driver in which every call (BeginTx, Exec, Query, Next, Scan, Commit, Rollback) may fail at every call site - so every placement of one, two or any number of faults is covered without enumeration: the handle the store holds is live, the number of open transactions it began is exactly one while it holds a handle and zero otherwise (ghost counter: each begun transaction is ended exactly once; no statement, commit or rollback on an ended handle), outside multi-operation mode no transaction is left open after Put/Get/Start/Stop/Abort whatever failed, a multi-operation transaction survives successful Puts, and no path dereferences a nil transaction (automatic no-panic obligations).",
   note="Two genuine defects repaired (fix: 32db1b3 Put left the transaction open after a failed statement; fix: f7fe844 Abort without a transaction dereferenced nil). Known findings H14c/H14d: Stop and Abort leave the store in multi-operation mode, so a later acknowledged single Put is committed only by Close (the existing TestPostgresTxStartStop expects this, so it is not repaired). Not covered: value semantics (which rows a committed transaction makes visible: SQL text and pgx argument passing are outside reach), Close, Connect/ensureTable, Dump. Trusted: pgx typestate stubs (Commit/Rollback end the transaction also when they report an error), vcgo translation, solvers.",
   ref="4/C13"),
 "C18": dict(
   text="Proof along the path a language takes: State.SetLanguage selects exactly the ISO-639-3 form of a known code and leaves the language alone for an unknown one; refresh switches the language only together with the LANG flag and to the returned code; Vm.Run's loop invariant says that whenever LANG is clear the context carries the state's language, and call-site assertions show that every LOAD/RELOAD/MOVE/INCMP/CATCH handler call (all external-function and code lookups) is made with that context; Engine.Exec and Engine.Flush put the state's language into the context before the VM runs or renders (call-site assertions); DbBase.ToKey derives the translation key from the store's language, else from the context's, and the memory/filesystem Get falls back to the default entry (C10 contracts).",
   note="Known finding H25 (SetLanguage(\"\") reports an error and clears the language). Not covered: survival across save/resume (cbor serialisation of State.Language is outside reach), lookups inside the assumed render contracts (RenderTemplate, Menu.Render: the context is passed through unchanged by Vm.Render/Page.Render, which is checked), PoResource. Trusted: ISO table stub, context.WithValue/Value stubs, vcgo translation, solvers.",
   ref="4/C18"),
 "C07": dict(
   text="Reduced form: proof of a one-state sufficient condition for the renderer part of the statement. The statement relates two executions (long-lived engine vs one engine per request on a store) and goes through cbor by reflection; neither is expressible as a function contract. What is decided: whenever execution resumes after a HALT (call-site assertions inside Vm.Run's loop, for every program and history), the renderer state that is not persisted has the values a freshly created VM has - mapping table empty, no sink, no extra text, no error notice, menu empty, page cursors empty - and Engine.prepare forgets the previous request's exit value / exiting / executed marks. So a long-lived engine enters every request with the same non-persisted state as an engine built from the saved session.",
   note="Genuine defect found and repaired (fix: b2eba03): the error notice (Page.err) was kept for the lifetime of the VM, a long-lived engine prefixed every later page with 'invalid input: x' while per-request engines showed it once (known/H26_sticky_render_state_test.go compares both modes on the real code). NOT decided: equality of the two executions as a whole; Serialize/Deserialize being inverse on the persisted fields (cbor, reflection); the other scratch fields (Sizer.sink, Sizer.memberSizes, Menu.browse/pageCount) are not claimed; backends other than by their own properties (C10-C13).",
   ref="4/C07"),
 "C02": dict(
   text="Proof part (all inputs): Menu.applyPage offers 'next' on every page but the last and 'previous' on every page but the first and answers an index past the page count with a BrowseError; Sizer.GetAt reports a page index past the recorded page starts as an error, copies every non-sink value unchanged, and its slice expressions cannot panic when every page start lies inside the content; Page.joinSink records exactly one page start per page after the first and (by lengths and last bytes of the builders) every page start lies inside the returned content - for every row list, remaining size and menu size; applyTarget/State.Next/Previous move the page index as the move table says (shared with C04). BOUNDED part (labelled bounded, not counted as proved): the content relation - walking the pages from index 0 shows every row exactly once and in order, static text and ordinary menu on every page, every offered entry leads to a page that renders - is checked by running the real Page.Render for every page index over all row lists up to a bound (quick: rows from {\"\",a,bb,cccc}, 1..4 rows, 12 output sizes, 4066 walks; thorough: 5 row values, 1..5 rows, 40 sizes, 155641 walks).",
   note="Known findings: H8a/H8b (proof part: a trailing empty row on a page of its own gives a page start past the trimmed content and one page start too many) = H8c (bounded part: GetAt panics on that page), H9 (empty row at the start of a page is dropped), H27 (a page offers 'next' to a page that exceeds the limit; found by the bounded harness). Builder contents, strings.Split and text/template are not modelled (lengths and last bytes only); RenderTemplate/Menu.Render/prepare have assumed frame-only contracts. Trusted: strings.Builder/TrimRight/Index stubs, vcgo translation, solvers.",
   ref="4/C02"),
 "C16": dict(
   text="Proof part (all inputs), the back end from parsed arguments to bytes: writeOpcode writes the two big-endian opcode bytes; writeSym writes the length byte and the text of every symbol up to 255 bytes and refuses longer ones without writing; writeSize writes 01 00 for zero and otherwise the byte count followed by exactly the big-endian bytes of the number without leading zero bytes, for every 32-bit value (four range clauses); parseTwoSym/parseTwoSymReverse/parseSized/parseSig/parseFlagged write exactly the argument groups held by the parsed line in the VM's order (symbol/selector, wildcard swap, number written back in decimal) - over a ghost content string per bytes.Buffer. BOUNDED part (labelled bounded, not counted as proved): the lexer and grammar are built by reflection (participle) and are outside the verifier's reach; assembly programs generated from the grammar (every opcode; symbols, targets, selectors incl. leading zeros/letters/mixed/wildcard, all integer widths, trailing comments, blank lines, menu batches) are assembled with the real Parse and compared with the real disassembly (quick 2224 programs, thorough 19632); numSize (math.Log2) is compared with the byte count of its argument for 4.2 million arguments (quick) / all 2^32-1 arguments (thorough: complete for that function).",
   note="Known finding H15 (selectors starting with a digit are lexed as numbers: leading zeros dropped, letters cut) - found by the bounded part; the proof part shows the back end writes the decimal rendering of what the lexer delivered. numSize's contract is assumed in the proof part and covered by the exhaustive bounded check. Not under contract: parseOne's dispatch, Parse, Batcher, MenuProcessor.ToLines (built from vm.NewLine, whose layout is C14), io.Writer. Trusted: bytes.Buffer/strconv.FormatUint stubs, BigEndian model, vcgo translation, solvers.",
   ref="4/C16"),
}

pending_reason = "pending: contracts for this property are not yet under vcgo (see DESIGN.md section 4)"
na = {
 "C19": "quantifies over goroutine schedules / data races; sequential function contracts cannot express it (DESIGN.md section 4, C19)",
}

hooks_commits = subprocess.run(["git","-C","/repo","log","--format=%h %s","1c43a62..HEAD"],capture_output=True,text=True).stdout.strip().split("\n")
hook_ids = [l.split()[0] for l in hooks_commits if l and not l.split(' ',1)[1].startswith('fix:')]

m = {
 "version": 1,
 "setup_cmd": "cd /verif && GOFLAGS=-mod=mod GOPROXY=off GOSUMDB=off GOTOOLCHAIN=local go build -o bin/vcgo ./cmd/vcgo",
 "hooks": {"guard": "verif", "enable": "-tags verif (contract files */contracts_verif.go: comments only; lemma functions vm|db|asm/lemmas_verif.go: real Go, used only by the verifier; all compiled only under the tag)",
           "baseline_off_cmd": "cd /repo && GOFLAGS=-mod=mod GOPROXY=off GOSUMDB=off go test -json -vet=off -count=1 -timeout 25m ./...",
           "source_commits": hook_ids, "add_only": True},
 "engines": [{"name": "vcgo", "path": "cmd/vcgo", "serves_properties": sorted(claimed),
              "kind_free_text": "self-written modular deductive verifier for a Go subset: go/ssa (naive form) -> verification conditions (SMT-LIB, Int with explicit wrap-around, typed Burstall heap) -> z3 5.1.0 / z3 4.8.12 / cvc5 1.0.3"}],
 "checks": [],
 "notes": "Contracts live in /repo/<pkg>/contracts_verif.go (build tag verif). Known findings: /verif/known_findings.json (demonstrations under /verif/known). Must-fail corpus: /verif/selftest; seeded changes by sub-agents: /verif/seeded; behaviour-preserving edits: /verif/harmless. Bounded stand-ins (C02 content, C16 grammar/numSize) are labelled bounded in the evidence. See DESIGN.md section 10 and README.md.",
 "not_applicable": [],
}
for i in ids:
    if i in claimed:
        c = claimed[i]
        m["checks"].append({
          "property_id": i,
          "quick_cmd": "./check %s quick" % i,
          "thorough_cmd": "./check %s thorough" % i,
          "evidence_file": "/verif/evidence/%s.json" % i,
          "replay_cmd_template": "./check %s --replay {path}" % i,
          "engine": "vcgo",
          "level_claimed": {"category": "proof", "text": c["text"], "design_ref": c["ref"]},
          "level_note": c["note"],
          "technique": TECH,
        })
    else:
        m["not_applicable"].append({"property_id": i, "reason": na.get(i, pending_reason)})
json.dump(m, open('/verif/MANIFEST.json', 'w'), indent=1)
print("claimed:", sorted(claimed), "not claimed:", [x["property_id"] for x in m["not_applicable"]])
