package asm

// H15 (C16): selectors with leading zeros (or letters after digits) are altered by the assembler.
// Run with: known/run.sh known/H15_selector_leading_zero_test.go asm TestKnownH15

import (
	"bytes"
	"testing"

	"git.defalsify.org/vise.git/vm"
)

func TestKnownH15(t *testing.T) {
	for _, src := range []string{"INCMP foo 00\n", "INCMP foo 007\n", "MOUT foo 01\n"} {
		w := bytes.NewBuffer(nil)
		if _, err := Parse(src, w); err != nil {
			t.Errorf("H15: %q is rejected: %v", src, err)
			continue
		}
		got, err := vm.NewParseHandler().WithDefaultHandlers().ToString(w.Bytes())
		if err != nil {
			t.Fatal(err)
		}
		if got != src {
			t.Errorf("H15: %q assembles to %q", src, got)
		}
	}
}
