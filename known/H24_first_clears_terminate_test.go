package engine

// H24 (C06): with an entry function configured (WithFirst), a fresh engine on a
// session whose TERMINATE flag is set clears the flag itself (deferred
// ResetFlag in runFirst), so the next request runs although no client code
// reset the flag ("Until explicit reset", doc/texinfo/signals.texi).
// Run with: known/run.sh known/H24_first_clears_terminate_test.go engine TestKnownH24

import (
	"context"
	"testing"

	"git.defalsify.org/vise.git/cache"
	"git.defalsify.org/vise.git/resource"
	"git.defalsify.org/vise.git/state"
	"git.defalsify.org/vise.git/vm"
)

func TestKnownH24(t *testing.T) {
	ctx := context.Background()
	calls := 0
	first := func(ctx context.Context, sym string, input []byte) (resource.Result, error) {
		calls++
		return resource.Result{}, nil
	}
	code := func(ctx context.Context, sym string) ([]byte, error) {
		b := vm.NewLine(nil, vm.HALT, nil, nil, nil)
		return b, nil
	}
	tpl := func(ctx context.Context, sym string) (string, error) { return "hello", nil }
	newEngine := func(st *state.State, ca *cache.Cache, withFirst bool) *DefaultEngine {
		rs := resource.NewMenuResource().WithCodeGetter(code).WithTemplateGetter(tpl)
		en := NewEngine(Config{Root: "root"}, rs).WithState(st).WithMemory(ca)
		if withFirst {
			en = en.WithFirst(first)
		}
		return en
	}

	// the session was blocked by client code (TERMINATE is writeable by external code)
	st := state.NewState(0)
	st.SetFlag(state.FLAG_TERMINATE)
	ca := cache.NewCache()

	// reference: without an entry function the session stays blocked
	ref := state.NewState(0)
	ref.SetFlag(state.FLAG_TERMINATE)
	enr := newEngine(ref, cache.NewCache(), false)
	for i := 0; i < 2; i++ {
		enr.Exec(ctx, []byte{})
	}
	if !ref.GetFlag(state.FLAG_TERMINATE) {
		t.Fatalf("reference run: TERMINATE cleared without an entry function")
	}

	en := newEngine(st, ca, true)
	cont, err := en.Exec(ctx, []byte{})
	if err != nil {
		t.Fatal(err)
	}
	if cont {
		t.Errorf("blocked session continues")
	}
	if calls != 0 {
		t.Errorf("entry function called %d times while TERMINATE was set", calls)
	}
	if !st.GetFlag(state.FLAG_TERMINATE) {
		t.Errorf("H24: TERMINATE was cleared by the engine (no client code reset it)")
	}
	// ... and so the next request runs
	cont, err = en.Exec(ctx, []byte{})
	if calls != 0 || cont {
		t.Errorf("H24: next request ran: entry function calls=%d cont=%v err=%v", calls, cont, err)
	}
}
