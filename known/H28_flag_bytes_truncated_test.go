package state

// H28 (C06, C08): NewState keeps the number of flag bytes in a uint8 (toByteSize), so a state
// with more than 2032 client flags gets too few flag bytes and SetFlag within the configured
// flag count panics with an index out of range.
// Run with: known/run.sh known/H28_flag_bytes_truncated_test.go state TestKnownH28

import "testing"

func TestKnownH28(t *testing.T) {
	defer func() {
		if r := recover(); r != nil {
			t.Errorf("NewState(3000).SetFlag(2500) panics: %v", r)
		}
	}()
	st := NewState(3000)
	t.Logf("BitSize %d, %d flag bytes", st.BitSize, len(st.Flags))
	st.SetFlag(2500)
}
