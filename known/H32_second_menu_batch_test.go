package asm

// H32 (C16): MenuProcessor.ToLines never emptied the list of collected menu
// lines, so the second batch of DOWN/UP/NEXT/PREVIOUS lines in one source was
// expanded together with the lines of the first one again.
// Run with: known/run.sh known/H32_second_menu_batch_test.go asm TestKnownH32

import (
	"bytes"
	"testing"

	"git.defalsify.org/vise.git/vm"
)

func TestKnownH32(t *testing.T) {
	src := "DOWN foo 1 go\nMOVE foo\nUP 2 back\nMOVE bar\n"
	w := bytes.NewBuffer(nil)
	_, err := Parse(src, w)
	if err != nil {
		t.Fatal(err)
	}
	got, err := vm.NewParseHandler().WithDefaultHandlers().ToString(w.Bytes())
	if err != nil {
		t.Fatal(err)
	}
	want := "MOUT go 1\nHALT\nINCMP foo 1\nMOVE foo\nMOUT back 2\nHALT\nINCMP _ 2\nMOVE bar\n"
	if got != want {
		t.Errorf("H32: source\n%s assembles to\n%s want\n%s", src, got, want)
	}
}
