package vm

// Demonstration for the defect repaired by the "fix: applyTarget" commit
// (property C04, obligation vm.applyTarget post:upfail): moving up ('_') from
// the entry node succeeded and emptied the navigation stack.
// Run: go test -overlay (see /verif/known/README) -run TestH20UpAtEntry ./vm

import (
	"context"
	"testing"

	"git.defalsify.org/vise.git/cache"
	"git.defalsify.org/vise.git/state"
)

func TestH20UpAtEntry(t *testing.T) {
	st := state.NewState(0)
	st.Down("root")
	ca := cache.NewCache()
	ca.Push()
	_, _, err := applyTarget([]byte("_"), st, ca, context.Background())
	if err == nil {
		t.Fatalf("'_' at the entry node succeeded; stack is now %v", st.ExecPath)
	}
	if len(st.ExecPath) != 1 {
		t.Fatalf("position changed by a failed move: %v", st.ExecPath)
	}
}
