package engine

// H21 (C05): MAP exposes a value to the template "only until the next move",
// and a taken CATCH is a move - but runCatch did not drop the page's mappings
// the way runMove and runInCmp do (vm.Reset). A symbol mapped by the node that
// is left was therefore still exposed to the template of the catch target.
// Run with: known/run.sh known/H21_catch_keeps_mappings_test.go engine TestKnownH21

import (
	"bytes"
	"context"
	"fmt"
	"strings"
	"testing"

	"git.defalsify.org/vise.git/resource"
	"git.defalsify.org/vise.git/vm"
)

func TestKnownH21(t *testing.T) {
	ctx := context.Background()
	code := func(ctx context.Context, sym string) ([]byte, error) {
		var b []byte
		switch sym {
		case "root":
			b = vm.NewLine(nil, vm.LOAD, []string{"foo"}, []byte{10}, nil)
			b = vm.NewLine(b, vm.MAP, []string{"foo"}, nil, nil)
			b = vm.NewLine(b, vm.CATCH, []string{"other"}, []byte{8}, []uint8{1})
			b = vm.NewLine(b, vm.HALT, nil, nil, nil)
		case "other":
			b = vm.NewLine(nil, vm.HALT, nil, nil, nil)
			b = vm.NewLine(b, vm.INCMP, []string{"root", "*"}, nil, nil)
		default:
			return nil, fmt.Errorf("no code for %s", sym)
		}
		return b, nil
	}
	tpl := func(ctx context.Context, sym string) (string, error) {
		if sym == "other" {
			return "other {{.foo}}", nil
		}
		return "page " + sym, nil
	}
	fn := func(ctx context.Context, sym string, input []byte) (resource.Result, error) {
		return resource.Result{Content: "secret", FlagSet: []uint32{8}}, nil
	}
	rs := resource.NewMenuResource().WithCodeGetter(code).WithTemplateGetter(tpl)
	rs.AddLocalFunc("foo", fn)
	en := NewEngine(Config{Root: "root", FlagCount: 1}, rs)
	_, err := en.Exec(ctx, []byte{})
	if err != nil {
		t.Fatal(err)
	}
	w := bytes.NewBuffer(nil)
	_, err = en.Flush(ctx, w)
	// the catch target maps nothing: its template must not see the value the previous node mapped
	if err == nil && strings.Contains(w.String(), "secret") {
		t.Fatalf("value mapped by the node that was left is shown by the catch target: %q", w.String())
	}
}
