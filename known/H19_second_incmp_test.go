package vm

// Demonstration for the defect repaired by the "fix: INCMP" commit (property
// C03, obligation (*vm.Vm).runInCmp post:once): two INCMP lines that share a
// selector both moved on one input.

import (
	"context"
	"testing"

	"git.defalsify.org/vise.git/cache"
	"git.defalsify.org/vise.git/resource"
	"git.defalsify.org/vise.git/state"
)

func TestH19SecondIncmp(t *testing.T) {
	st := state.NewState(0)
	rs := resource.NewMenuResource().WithCodeGetter(func(ctx context.Context, sym string) ([]byte, error) {
		return NewLine(nil, HALT, nil, nil, nil), nil
	})
	ca := cache.NewCache()
	vm := NewVm(st, rs, ca, nil)
	st.Down("root")
	ca.Push()
	b := NewLine(nil, INCMP, []string{"foo", "1"}, nil, nil)
	b = NewLine(b, INCMP, []string{"bar", "1"}, nil, nil)
	st.SetInput([]byte("1"))
	_, err := vm.Run(context.Background(), b)
	if err != nil {
		t.Fatal(err)
	}
	if len(st.ExecPath) != 2 || st.ExecPath[1] != "foo" {
		t.Fatalf("one input caused more than one move: path %v", st.ExecPath)
	}
}
