package vm

// Known finding H22 (property C08): a well-formed application whose nodes
// move back and forth (every cycle passes a HALT) descends one level per
// input; beyond state.MaxLevel (128) State.Down panics deliberately
// ("maxlevel"; state.TestStateMaxMovement expects the panic), so a client can
// crash the library with about 130 valid inputs.

import (
	"context"
	"testing"

	"git.defalsify.org/vise.git/cache"
	"git.defalsify.org/vise.git/resource"
	"git.defalsify.org/vise.git/state"
)

func TestH22MaxLevel(t *testing.T) {
	code := map[string][]byte{
		"aa": NewLine(NewLine(nil, HALT, nil, nil, nil), INCMP, []string{"bb", "1"}, nil, nil),
		"bb": NewLine(NewLine(nil, HALT, nil, nil, nil), INCMP, []string{"aa", "1"}, nil, nil),
	}
	rs := resource.NewMenuResource().WithCodeGetter(func(ctx context.Context, sym string) ([]byte, error) {
		return code[sym], nil
	})
	st := state.NewState(0)
	ca := cache.NewCache()
	vm := NewVm(st, rs, ca, nil)
	b := NewLine(nil, MOVE, []string{"aa"}, nil, nil)
	defer func() {
		if r := recover(); r != nil {
			t.Fatalf("panic after %d levels: %v", len(st.ExecPath), r)
		}
	}()
	var err error
	for i := 0; i < 200; i++ {
		st.SetInput([]byte("1"))
		b, err = vm.Run(context.Background(), b)
		if err != nil {
			t.Fatal(err)
		}
	}
}
