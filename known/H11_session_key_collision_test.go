package mem

// H11 (C11): the storage key of session-scoped data is <type><session id>.<key>
// with no escaping, so (session "a", key "b.c") and (session "a.b", key "c")
// are the same record; an empty session id has no prefix at all, so its key
// "a.x" is session "a"'s key "x". A client-chosen session id or key can thus
// address another session's data.
// Run with: known/run.sh known/H11_session_key_collision_test.go db/mem TestKnownH11

import (
	"context"
	"testing"

	"git.defalsify.org/vise.git/db"
)

func TestKnownH11(t *testing.T) {
	ctx := context.Background()
	store := NewMemDb()
	store.Connect(ctx, "")
	store.SetPrefix(db.DATATYPE_USERDATA)

	store.SetSession("a")
	if err := store.Put(ctx, []byte("b.c"), []byte("belongs to session a")); err != nil {
		t.Fatal(err)
	}
	store.SetSession("a.b")
	v, err := store.Get(ctx, []byte("c"))
	if err == nil {
		t.Errorf("H11: session \"a.b\" reads key \"c\" and gets %q", v)
	}
	store.SetSession("")
	v, err = store.Get(ctx, []byte("a.b.c"))
	if err == nil {
		t.Errorf("H11: the empty session reads key \"a.b.c\" and gets %q", v)
	}
}
