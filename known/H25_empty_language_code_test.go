package state

// H25 (C18): SetLanguage("") reports an error (the empty string is not a
// language code) and nevertheless clears the selected language. An external
// function that raises LANG with empty content therefore switches the session
// back to the default language although "an unknown code leaves the language
// unchanged".
// Run with: known/run.sh known/H25_empty_language_code_test.go state TestKnownH25

import "testing"

func TestKnownH25(t *testing.T) {
	st := NewState(0)
	if err := st.SetLanguage("nor"); err != nil {
		t.Fatal(err)
	}
	err := st.SetLanguage("")
	if err == nil {
		t.Fatal("the empty code was accepted")
	}
	if st.Language == nil || st.Language.Code != "nor" {
		t.Fatalf("H25: the rejected (empty) code changed the language to %v", st.Language)
	}
}
