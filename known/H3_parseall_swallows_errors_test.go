package vm

// H3 (C15): ParseAll declares a new `err` inside most cases of its opcode switch
// (`r, bb, err := ParseMove(b)`), so the error of a truncated or over-long argument
// never reaches the check after the switch: the disassembler reports success for
// input that ends in the middle of an instruction.
// Run with: known/run.sh known/H3_parseall_swallows_errors_test.go vm TestKnownH3

import "testing"

func TestKnownH3(t *testing.T) {
	for _, b := range [][]byte{
		{0x00, MOVE, 0x03, 'f', 'o'},            // symbol cut short
		{0x00, LOAD, 0x03, 'f', 'o', 'o', 0x05}, // integer of 5 bytes, none present
		{0x00, INCMP, 0x03, 'f', 'o', 'o'},      // second symbol missing
		{0x00, CROAK, 0x01},                     // integer cut short
	} {
		ph := NewParseHandler().WithDefaultHandlers()
		s, err := ph.ToString(b)
		if err == nil {
			t.Errorf("H3: % x is accepted by the disassembler (output %q)", b, s)
		}
	}
}
