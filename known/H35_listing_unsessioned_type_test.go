package fs

// H35 (C10): DbBase.DecodeKey demanded the session prefix on every stored key,
// also on keys of data types that are never session-scoped (bytecode, menus,
// templates, static loads) and therefore never carry it. With a session set on
// the store, listing such a data type found nothing although Get on the same
// store returned the records.
// Run with: known/run.sh known/H35_listing_unsessioned_type_test.go db/fs TestKnownH35

import (
	"context"
	"os"
	"testing"

	"git.defalsify.org/vise.git/db"
)

func TestKnownH35(t *testing.T) {
	ctx := context.Background()
	d, err := os.MkdirTemp("", "vise-h35-")
	if err != nil {
		t.Fatal(err)
	}
	defer os.RemoveAll(d)
	store := NewFsDb()
	if err := store.Connect(ctx, d); err != nil {
		t.Fatal(err)
	}
	store.SetLock(db.DATATYPE_TEMPLATE, false)
	store.SetSession("s1")
	store.SetPrefix(db.DATATYPE_TEMPLATE)
	if err := store.Put(ctx, []byte("foo"), []byte("bar")); err != nil {
		t.Fatal(err)
	}
	v, err := store.Get(ctx, []byte("foo"))
	if err != nil || string(v) != "bar" {
		t.Fatalf("get: %s %v", v, err)
	}
	o, err := store.Dump(ctx, []byte("fo"))
	if err != nil {
		t.Fatalf("H35: listing templates with prefix fo while a session is set: %v (the record exists: Get returns %q)", err, v)
	}
	k, vv := o.Next(ctx)
	if string(k) != "foo" || string(vv) != "bar" {
		t.Fatalf("H35: listing gave %q=%q, want foo=bar", k, vv)
	}
}
