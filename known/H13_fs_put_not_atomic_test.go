package fs

// H13 (C12): fsDb.Put writes the record in place (create/truncate, then
// write). A Put that is cut short leaves a truncated record. The cut is
// produced here with a file size limit (the write fails after the first
// bytes), which leaves the file exactly as a process death at that point would.
// Run with: known/run.sh known/H13_fs_put_not_atomic_test.go db/fs TestKnownH13

import (
	"bytes"
	"context"
	"os/signal"
	"syscall"
	"testing"

	"git.defalsify.org/vise.git/db"
)

func TestKnownH13(t *testing.T) {
	ctx := context.Background()
	store := NewFsDb()
	if err := store.Connect(ctx, t.TempDir()); err != nil {
		t.Fatal(err)
	}
	store.SetPrefix(db.DATATYPE_STATE)
	store.SetSession("alice")
	older := bytes.Repeat([]byte("A"), 4096)
	newer := bytes.Repeat([]byte("B"), 4096)
	if err := store.Put(ctx, []byte("state"), older); err != nil {
		t.Fatal(err)
	}

	// the next save dies after 100 bytes
	signal.Ignore(syscall.SIGXFSZ)
	var lim, cut syscall.Rlimit
	if err := syscall.Getrlimit(syscall.RLIMIT_FSIZE, &lim); err != nil {
		t.Skip(err)
	}
	cut = lim
	cut.Cur = 100
	if err := syscall.Setrlimit(syscall.RLIMIT_FSIZE, &cut); err != nil {
		t.Skip(err)
	}
	err := store.Put(ctx, []byte("state"), newer)
	syscall.Setrlimit(syscall.RLIMIT_FSIZE, &lim)
	if err == nil {
		t.Skip("the size limit did not interrupt the write")
	}

	v, err := store.Get(ctx, []byte("state"))
	if err != nil {
		t.Fatalf("H13: record lost after an interrupted save: %v", err)
	}
	if !bytes.Equal(v, older) && !bytes.Equal(v, newer) {
		t.Fatalf("H13: after an interrupted save the record is neither the old nor the new value: %d bytes, starts with %q", len(v), v[:min(len(v), 8)])
	}
}
