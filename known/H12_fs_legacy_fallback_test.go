package fs

// H12 (C10, C11): the filesystem backend falls back to a legacy file name
// without the type byte. The record of (BIN, "foo") is the file "1foo"; a Get
// of the never-written key "1foo" under another data type finds it through
// that fallback and returns another data type's content instead of not-found.
// Run with: known/run.sh known/H12_fs_legacy_fallback_test.go db/fs TestKnownH12

import (
	"context"
	"testing"

	"git.defalsify.org/vise.git/db"
)

func TestKnownH12(t *testing.T) {
	ctx := context.Background()
	store := NewFsDb()
	if err := store.Connect(ctx, t.TempDir()); err != nil {
		t.Fatal(err)
	}
	store.SetLock(db.DATATYPE_BIN, false) // the application is being installed
	store.SetPrefix(db.DATATYPE_BIN)
	if err := store.Put(ctx, []byte("foo"), []byte("bytecode of foo")); err != nil {
		t.Fatal(err)
	}
	store.SetPrefix(db.DATATYPE_MENU)
	v, err := store.Get(ctx, []byte("1foo"))
	if err == nil {
		t.Fatalf("H12: menu key \"1foo\" was never written, Get returned %q (the bytecode stored for \"foo\")", v)
	}
	if !db.IsNotFound(err) {
		t.Fatalf("unexpected error: %v", err)
	}
}
