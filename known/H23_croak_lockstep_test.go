package vm

// Known finding H23 (property C08): CROAK resets the cache to one scope while
// the navigation stack keeps its depth, so "one cache scope per navigation
// level" no longer holds after the instruction.

import (
	"context"
	"testing"

	"git.defalsify.org/vise.git/cache"
	"git.defalsify.org/vise.git/resource"
	"git.defalsify.org/vise.git/state"
)

func TestH23CroakLockstep(t *testing.T) {
	st := state.NewState(1)
	rs := resource.NewMenuResource()
	ca := cache.NewCache()
	vm := NewVm(st, rs, ca, nil)
	st.Down("root")
	ca.Push()
	st.Down("xx")
	ca.Push()
	st.SetFlag(8)
	b := NewLine(nil, CROAK, nil, []byte{8}, []uint8{1})
	if _, err := vm.runCroak(context.Background(), b[2:]); err != nil {
		t.Fatal(err)
	}
	if int(ca.Levels()) != len(st.ExecPath)+1 {
		t.Fatalf("cache has %d scopes for navigation path %v", ca.Levels(), st.ExecPath)
	}
}
