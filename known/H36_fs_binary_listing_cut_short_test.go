package fs

// H36 (C10): on the filesystem backend with binary keys (WithBinary) record
// names are base64 text, which does not sort like the raw keys. The listing
// iterator stopped at the first directory entry that does not carry the
// requested prefix, so records with the prefix that sort after such an entry
// were never listed. (In text mode names with a common prefix are contiguous,
// which hid it.) The same early stop ended a listing at any name that does not
// decode, e.g. a temporary file left by an interrupted write.
// Run with: known/run.sh known/H36_fs_binary_listing_cut_short_test.go db/fs TestKnownH36

import (
	"bytes"
	"context"
	"testing"

	"git.defalsify.org/vise.git/db"
)

func TestKnownH36(t *testing.T) {
	ctx := context.Background()
	d := t.TempDir()
	store := NewFsDb().WithBinary()
	if err := store.Connect(ctx, d); err != nil {
		t.Fatal(err)
	}
	store.SetPrefix(db.DATATYPE_USERDATA)
	keys := [][]byte{{0x03, 0x40, 0x00}, {0x00, 0x00, 0x00}, {0x03, 0x00, 0x00}}
	for _, k := range keys {
		if err := store.Put(ctx, k, append([]byte("v"), k...)); err != nil {
			t.Fatal(err)
		}
	}
	o, err := store.Dump(ctx, []byte{0x03})
	if err != nil {
		t.Fatal(err)
	}
	var got [][]byte
	for {
		k, v := o.Next(ctx)
		if k == nil {
			break
		}
		if !bytes.Equal(v, append([]byte("v"), k...)) {
			t.Fatalf("key %x listed with value %x", k, v)
		}
		got = append(got, k)
	}
	if len(got) != 2 {
		t.Fatalf("listing by prefix 03 must yield 034000 and 030000, got %x", got)
	}
}
