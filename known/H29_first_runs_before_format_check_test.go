package engine

// H29 (C17): on the first request of an engine (every request when one engine is
// created per request), Exec checks the input format only after init has run the
// entry function (WithFirst): input that is refused for its format still executes
// a code symbol of the application. (Over-long input is refused in time: init's
// SetInput fails before the entry function.)
// Run with: known/run.sh known/H29_first_runs_before_format_check_test.go engine TestKnownH29

import (
	"context"
	"testing"

	"git.defalsify.org/vise.git/resource"
	"git.defalsify.org/vise.git/vm"
)

func TestKnownH29(t *testing.T) {
	ctx := context.Background()
	calls := 0
	first := func(ctx context.Context, sym string, input []byte) (resource.Result, error) {
		calls++
		return resource.Result{}, nil
	}
	code := func(ctx context.Context, sym string) ([]byte, error) {
		return vm.NewLine(nil, vm.HALT, nil, nil, nil), nil
	}
	rs := resource.NewMenuResource().WithCodeGetter(code)
	en := NewEngine(Config{Root: "root"}, rs).WithFirst(first)
	_, err := en.Exec(ctx, []byte("_foo"))
	if err == nil {
		t.Fatal("the malformed input was accepted")
	}
	if calls != 0 {
		t.Errorf("H29: input \"_foo\" is refused for its format, but the entry function ran %d time(s) first", calls)
	}
}
