package engine

// H34 (C07): with an entry function configured (WithFirst) every fresh engine
// loads "_first" into the session's cache, which overwrites Cache.LastValue.
// The exit text of a session that ends is the last loaded value, so an engine
// created per request ends with the entry function's result where a long-lived
// engine ends with the value the application loaded last.
// Run with: known/run.sh known/H34_first_overwrites_exit_value_test.go engine TestKnownH34

import (
	"bytes"
	"context"
	"fmt"
	"testing"

	memdb "git.defalsify.org/vise.git/db/mem"
	"git.defalsify.org/vise.git/persist"
	"git.defalsify.org/vise.git/resource"
	"git.defalsify.org/vise.git/vm"
)

func h34Resource() *resource.MenuResource {
	code := func(ctx context.Context, sym string) ([]byte, error) {
		var b []byte
		switch sym {
		case "root":
			b = vm.NewLine(nil, vm.LOAD, []string{"bye"}, []byte{10}, nil)
			b = vm.NewLine(b, vm.HALT, nil, nil, nil)
			b = vm.NewLine(b, vm.INCMP, []string{"end", "*"}, nil, nil)
		case "end":
			b = vm.NewLine(nil, vm.HALT, nil, nil, nil)
		default:
			return nil, fmt.Errorf("no code for %s", sym)
		}
		return b, nil
	}
	tpl := func(ctx context.Context, sym string) (string, error) {
		return "page " + sym, nil
	}
	fn := func(ctx context.Context, sym string, input []byte) (resource.Result, error) {
		return resource.Result{Content: "bye!"}, nil
	}
	rs := resource.NewMenuResource().WithCodeGetter(code).WithTemplateGetter(tpl)
	rs.AddLocalFunc("bye", fn)
	return rs
}

func h34First(ctx context.Context, sym string, input []byte) (resource.Result, error) {
	return resource.Result{}, nil
}

func TestKnownH34(t *testing.T) {
	ctx := context.Background()
	inputs := []string{"", "1"}
	cfg := Config{Root: "root", SessionId: "s"}

	var long []string
	en := NewEngine(cfg, h34Resource()).WithFirst(h34First)
	for _, in := range inputs {
		c, err := en.Exec(ctx, []byte(in))
		if err != nil {
			t.Fatal(err)
		}
		w := bytes.NewBuffer(nil)
		_, err = en.Flush(ctx, w)
		long = append(long, fmt.Sprintf("%s|%v|%v", w.String(), c, err))
	}

	var per []string
	store := memdb.NewMemDb()
	store.Connect(ctx, "")
	for _, in := range inputs {
		pe := persist.NewPersister(store)
		en := NewEngine(cfg, h34Resource()).WithPersister(pe).WithFirst(h34First)
		c, err := en.Exec(ctx, []byte(in))
		if err != nil {
			t.Fatal(err)
		}
		w := bytes.NewBuffer(nil)
		_, err = en.Flush(ctx, w)
		en.Finish(ctx)
		per = append(per, fmt.Sprintf("%s|%v|%v", w.String(), c, err))
	}
	for i := range inputs {
		if long[i] != per[i] {
			t.Errorf("H34: input %d (%q): long-lived engine says %q, per-request engines say %q", i, inputs[i], long[i], per[i])
		}
	}
}
