package engine

// Known finding H10 (property C01): when a session ends with output pending,
// Flush appends the exit value (the last loaded value) after the size-checked
// page, so more than Config.OutputSize bytes are handed to the client.

import (
	"bytes"
	"context"
	"strings"
	"testing"

	"git.defalsify.org/vise.git/resource"
	"git.defalsify.org/vise.git/vm"
)

func TestH10ExitOversize(t *testing.T) {
	rs := resource.NewMenuResource()
	rs.WithCodeGetter(func(ctx context.Context, sym string) ([]byte, error) {
		b := vm.NewLine(nil, vm.LOAD, []string{"foo"}, []byte{60}, nil)
		b = vm.NewLine(b, vm.MAP, []string{"foo"}, nil, nil)
		b = vm.NewLine(b, vm.HALT, nil, nil, nil)
		return b, nil
	})
	rs.WithTemplateGetter(func(ctx context.Context, sym string) (string, error) {
		return "{{.foo}}", nil
	})
	rs.AddLocalFunc("foo", func(ctx context.Context, sym string, input []byte) (resource.Result, error) {
		return resource.Result{Content: strings.Repeat("x", 60)}, nil
	})
	en := NewEngine(Config{OutputSize: 100}, rs)
	ctx := context.Background()
	if _, err := en.Exec(ctx, []byte{}); err != nil {
		t.Fatal(err)
	}
	w := bytes.NewBuffer(nil)
	if _, err := en.Flush(ctx, w); err != nil {
		t.Fatal(err)
	}
	t.Logf("written %d: %q", w.Len(), w.String())
	if w.Len() > 100 {
		t.Fatalf("%d bytes written with OutputSize 100", w.Len())
	}
}
