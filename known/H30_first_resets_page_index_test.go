package engine

// H30 (C07): with an entry function configured (WithFirst), every fresh engine
// runs it inside a temporary stack level (State.Down("_first") ... State.Up()),
// and both moves zero the page index of the node the session is on. A session
// that is browsing a paginated node loses its page when it is served by one
// engine per request; a long-lived engine (which runs the entry function once)
// keeps it.
// Run with: known/run.sh known/H30_first_resets_page_index_test.go engine TestKnownH30

import (
	"bytes"
	"context"
	"fmt"
	"strings"
	"testing"

	memdb "git.defalsify.org/vise.git/db/mem"
	"git.defalsify.org/vise.git/persist"
	"git.defalsify.org/vise.git/resource"
	"git.defalsify.org/vise.git/vm"
)

func h30Resource() *resource.MenuResource {
	code := func(ctx context.Context, sym string) ([]byte, error) {
		var b []byte
		switch sym {
		case "root":
			b = vm.NewLine(nil, vm.LOAD, []string{"rows"}, []byte{0x00}, nil)
			b = vm.NewLine(b, vm.MAP, []string{"rows"}, nil, nil)
			b = vm.NewLine(b, vm.MNEXT, []string{"next", "11"}, nil, nil)
			b = vm.NewLine(b, vm.MPREV, []string{"back", "22"}, nil, nil)
			b = vm.NewLine(b, vm.HALT, nil, nil, nil)
			b = vm.NewLine(b, vm.INCMP, []string{">", "11"}, nil, nil)
			b = vm.NewLine(b, vm.INCMP, []string{"<", "22"}, nil, nil)
		case "_catch":
			b = vm.NewLine(nil, vm.HALT, nil, nil, nil)
			b = vm.NewLine(b, vm.MOVE, []string{"_"}, nil, nil)
		default:
			return nil, fmt.Errorf("no code for %s", sym)
		}
		return b, nil
	}
	tpl := func(ctx context.Context, sym string) (string, error) {
		if sym == "_catch" {
			return "catch", nil
		}
		return "{{.rows}}", nil
	}
	rows := func(ctx context.Context, sym string, input []byte) (resource.Result, error) {
		var r []string
		for i := 0; i < 12; i++ {
			r = append(r, fmt.Sprintf("row number %02d", i))
		}
		return resource.Result{Content: strings.Join(r, "\n")}, nil
	}
	rs := resource.NewMenuResource().WithCodeGetter(code).WithTemplateGetter(tpl)
	rs.AddLocalFunc("rows", rows)
	return rs
}

func TestKnownH30(t *testing.T) {
	ctx := context.Background()
	first := func(ctx context.Context, sym string, input []byte) (resource.Result, error) {
		return resource.Result{}, nil
	}
	inputs := []string{"", "11", "11", "22"}
	cfg := Config{Root: "root", SessionId: "s", OutputSize: 80}

	var long []string
	en := NewEngine(cfg, h30Resource()).WithFirst(first)
	for _, in := range inputs {
		if _, err := en.Exec(ctx, []byte(in)); err != nil {
			t.Fatal(err)
		}
		w := bytes.NewBuffer(nil)
		en.Flush(ctx, w)
		long = append(long, w.String())
	}

	var per []string
	store := memdb.NewMemDb()
	store.Connect(ctx, "")
	for _, in := range inputs {
		pe := persist.NewPersister(store)
		en := NewEngine(cfg, h30Resource()).WithPersister(pe).WithFirst(first)
		if _, err := en.Exec(ctx, []byte(in)); err != nil {
			t.Fatal(err)
		}
		w := bytes.NewBuffer(nil)
		en.Flush(ctx, w)
		en.Finish(ctx)
		per = append(per, w.String())
	}
	for i := range inputs {
		if long[i] != per[i] {
			t.Errorf("H30: request %d (input %q): long-lived engine shows %q, per-request engines show %q", i, inputs[i], long[i], per[i])
		}
	}
}
