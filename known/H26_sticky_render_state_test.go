package engine

// H26 (C07): renderer state that is neither persisted nor reset when execution
// resumes after a HALT makes a long-lived engine answer differently from
// engines that load and save the session per request: Page.err (the
// "invalid input" notice) is only cleared by a successful Render of a page that
// consumes it.
// Run with: known/run.sh known/H26_sticky_render_state_test.go engine TestKnownH26

import (
	"bytes"
	"context"
	"fmt"
	"testing"

	memdb "git.defalsify.org/vise.git/db/mem"
	"git.defalsify.org/vise.git/persist"
	"git.defalsify.org/vise.git/resource"
	"git.defalsify.org/vise.git/vm"
)

func h26Resource() *resource.MenuResource {
	code := func(ctx context.Context, sym string) ([]byte, error) {
		var b []byte
		switch sym {
		case "root":
			b = vm.NewLine(nil, vm.HALT, nil, nil, nil)
			b = vm.NewLine(b, vm.INCMP, []string{"one", "1"}, nil, nil)
		case "one":
			b = vm.NewLine(nil, vm.HALT, nil, nil, nil)
			b = vm.NewLine(b, vm.INCMP, []string{"two", "2"}, nil, nil)
		case "two":
			b = vm.NewLine(nil, vm.HALT, nil, nil, nil)
			b = vm.NewLine(b, vm.INCMP, []string{"_", "0"}, nil, nil)
		case "_catch":
			b = vm.NewLine(nil, vm.HALT, nil, nil, nil)
			b = vm.NewLine(b, vm.MOVE, []string{"_"}, nil, nil)
		default:
			return nil, fmt.Errorf("no code for %s", sym)
		}
		return b, nil
	}
	tpl := func(ctx context.Context, sym string) (string, error) {
		return "page " + sym, nil
	}
	return resource.NewMenuResource().WithCodeGetter(code).WithTemplateGetter(tpl)
}

func TestKnownH26(t *testing.T) {
	ctx := context.Background()
	inputs := []string{"", "x", "0", "1", "2"}
	cfg := Config{Root: "root", SessionId: "s"}

	// one long-lived engine
	var long []string
	en := NewEngine(cfg, h26Resource())
	for _, in := range inputs {
		_, err := en.Exec(ctx, []byte(in))
		if err != nil {
			t.Fatal(err)
		}
		w := bytes.NewBuffer(nil)
		en.Flush(ctx, w)
		long = append(long, w.String())
	}

	// one engine per request on a shared store
	var per []string
	store := memdb.NewMemDb()
	store.Connect(ctx, "")
	for _, in := range inputs {
		pe := persist.NewPersister(store)
		en := NewEngine(cfg, h26Resource()).WithPersister(pe)
		_, err := en.Exec(ctx, []byte(in))
		if err != nil {
			t.Fatal(err)
		}
		w := bytes.NewBuffer(nil)
		en.Flush(ctx, w)
		en.Finish(ctx)
		per = append(per, w.String())
	}
	for i := range inputs {
		if long[i] != per[i] {
			t.Errorf("H26: input %d (%q): long-lived engine says %q, per-request engines say %q", i, inputs[i], long[i], per[i])
		}
	}
}
