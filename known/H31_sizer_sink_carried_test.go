package engine

// H31 (C07): Sizer.Reset cleared only the page cursors. The sink symbol and the
// member sizes of the previous node stayed in a long-lived engine's sizer, so a
// symbol that was a sink (size 0) in one node and is loaded with a size limit in
// a later node was still cut like a paginated sink there, while engines that
// load and save the session per request rendered it whole.
// Run with: known/run.sh known/H31_sizer_sink_carried_test.go engine TestKnownH31

import (
	"bytes"
	"context"
	"fmt"
	"testing"

	memdb "git.defalsify.org/vise.git/db/mem"
	"git.defalsify.org/vise.git/persist"
	"git.defalsify.org/vise.git/resource"
	"git.defalsify.org/vise.git/vm"
)

func h31Resource() *resource.MenuResource {
	code := func(ctx context.Context, sym string) ([]byte, error) {
		var b []byte
		switch sym {
		case "root":
			b = vm.NewLine(nil, vm.HALT, nil, nil, nil)
			b = vm.NewLine(b, vm.INCMP, []string{"aa", "1"}, nil, nil)
			b = vm.NewLine(b, vm.INCMP, []string{"bb", "2"}, nil, nil)
		case "aa":
			b = vm.NewLine(nil, vm.LOAD, []string{"txt"}, []byte{0}, nil)
			b = vm.NewLine(b, vm.MAP, []string{"txt"}, nil, nil)
			b = vm.NewLine(b, vm.HALT, nil, nil, nil)
			b = vm.NewLine(b, vm.INCMP, []string{"_", "0"}, nil, nil)
		case "bb":
			b = vm.NewLine(nil, vm.LOAD, []string{"txt"}, []byte{20}, nil)
			b = vm.NewLine(b, vm.MAP, []string{"txt"}, nil, nil)
			b = vm.NewLine(b, vm.HALT, nil, nil, nil)
			b = vm.NewLine(b, vm.INCMP, []string{"_", "0"}, nil, nil)
		default:
			return nil, fmt.Errorf("no code for %s", sym)
		}
		return b, nil
	}
	tpl := func(ctx context.Context, sym string) (string, error) {
		if sym == "aa" || sym == "bb" {
			return sym + " {{.txt}}", nil
		}
		return "page " + sym, nil
	}
	fn := func(ctx context.Context, sym string, input []byte) (resource.Result, error) {
		return resource.Result{Content: "one\ntwo"}, nil
	}
	rs := resource.NewMenuResource().WithCodeGetter(code).WithTemplateGetter(tpl)
	rs.AddLocalFunc("txt", fn)
	return rs
}

func TestKnownH31(t *testing.T) {
	ctx := context.Background()
	inputs := []string{"", "1", "0", "2"}
	cfg := Config{Root: "root", SessionId: "s", OutputSize: 80}

	var long []string
	en := NewEngine(cfg, h31Resource())
	for _, in := range inputs {
		_, err := en.Exec(ctx, []byte(in))
		if err != nil {
			t.Fatal(err)
		}
		w := bytes.NewBuffer(nil)
		_, err = en.Flush(ctx, w)
		long = append(long, fmt.Sprintf("%s|%v", w.String(), err))
	}

	var per []string
	store := memdb.NewMemDb()
	store.Connect(ctx, "")
	for _, in := range inputs {
		pe := persist.NewPersister(store)
		en := NewEngine(cfg, h31Resource()).WithPersister(pe)
		_, err := en.Exec(ctx, []byte(in))
		if err != nil {
			t.Fatal(err)
		}
		w := bytes.NewBuffer(nil)
		_, err = en.Flush(ctx, w)
		en.Finish(ctx)
		per = append(per, fmt.Sprintf("%s|%v", w.String(), err))
	}
	for i := range inputs {
		if long[i] != per[i] {
			t.Errorf("H31: input %d (%q): long-lived engine says %q, per-request engines say %q", i, inputs[i], long[i], per[i])
		}
	}
}
