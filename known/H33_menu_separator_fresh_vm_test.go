package engine

// H33 (C07): Config.MenuSeparator reached only the menus created by a later
// Vm.Reset. The menu a fresh VM starts with kept the default separator, so an
// engine created for the request rendered entries added after a resumed HALT
// (no move in between) as "2:bb" where a long-lived engine rendered "2)bb".
// Run with: known/run.sh known/H33_menu_separator_fresh_vm_test.go engine TestKnownH33

import (
	"bytes"
	"context"
	"fmt"
	"testing"

	memdb "git.defalsify.org/vise.git/db/mem"
	"git.defalsify.org/vise.git/persist"
	"git.defalsify.org/vise.git/resource"
	"git.defalsify.org/vise.git/vm"
)

func h33Resource() *resource.MenuResource {
	code := func(ctx context.Context, sym string) ([]byte, error) {
		var b []byte
		switch sym {
		case "root":
			b = vm.NewLine(nil, vm.MOUT, []string{"aa", "1"}, nil, nil)
			b = vm.NewLine(b, vm.HALT, nil, nil, nil)
			b = vm.NewLine(b, vm.MOUT, []string{"bb", "2"}, nil, nil)
			b = vm.NewLine(b, vm.HALT, nil, nil, nil)
			b = vm.NewLine(b, vm.INCMP, []string{"_", "*"}, nil, nil)
		default:
			return nil, fmt.Errorf("no code for %s", sym)
		}
		return b, nil
	}
	tpl := func(ctx context.Context, sym string) (string, error) {
		return "page " + sym, nil
	}
	mn := func(ctx context.Context, sym string) (string, error) {
		return sym, nil
	}
	return resource.NewMenuResource().WithCodeGetter(code).WithTemplateGetter(tpl).WithMenuGetter(mn)
}

func TestKnownH33(t *testing.T) {
	ctx := context.Background()
	inputs := []string{"", "x"}
	cfg := Config{Root: "root", SessionId: "s", MenuSeparator: ")"}

	var long []string
	en := NewEngine(cfg, h33Resource())
	for _, in := range inputs {
		_, err := en.Exec(ctx, []byte(in))
		if err != nil {
			t.Fatal(err)
		}
		w := bytes.NewBuffer(nil)
		_, err = en.Flush(ctx, w)
		long = append(long, fmt.Sprintf("%s|%v", w.String(), err))
	}

	var per []string
	store := memdb.NewMemDb()
	store.Connect(ctx, "")
	for _, in := range inputs {
		pe := persist.NewPersister(store)
		en := NewEngine(cfg, h33Resource()).WithPersister(pe)
		_, err := en.Exec(ctx, []byte(in))
		if err != nil {
			t.Fatal(err)
		}
		w := bytes.NewBuffer(nil)
		_, err = en.Flush(ctx, w)
		en.Finish(ctx)
		per = append(per, fmt.Sprintf("%s|%v", w.String(), err))
	}
	for i := range inputs {
		if long[i] != per[i] {
			t.Errorf("H33: input %d (%q): long-lived engine says %q, per-request engines say %q", i, inputs[i], long[i], per[i])
		}
	}
}
