#!/bin/sh
# usage: known/run.sh <test-file> <package-dir-under-repo> <TestName> [repo]
# runs a demonstration test against the real code without writing to the repository
f=$(readlink -f "$1"); pkg=$2; name=$3; repo=${4:-/repo}
d=$(mktemp -d); trap 'rm -rf "$d"' EXIT
printf '{"Replace":{"%s/%s/zz_known_test.go":"%s"}}' "$repo" "$pkg" "$f" > "$d/ov.json"
cd "$repo/$pkg" && GOFLAGS=-mod=mod GOPROXY=off GOSUMDB=off GOTOOLCHAIN=local go test -overlay "$d/ov.json" -vet=off -count=1 -timeout 60s -run "$name" -v . 2>&1 | tail -${KNOWN_TAIL:-8}
