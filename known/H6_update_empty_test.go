package cache

// Demonstration for the defect repaired by the "fix: Update" commit (property
// C05, RELOAD must replace a value also with an empty result): updating a
// symbol with the empty string was reported as "capacity exceeded" and the old
// value was kept.

import "testing"

func TestH6UpdateEmpty(t *testing.T) {
	ca := NewCache()
	if err := ca.Add("k", "value", 0); err != nil {
		t.Fatal(err)
	}
	if err := ca.Update("k", ""); err != nil {
		t.Fatalf("update with empty value refused: %v", err)
	}
	v, _ := ca.Get("k")
	if v != "" || ca.CacheUseSize != 0 {
		t.Fatalf("value %q, used size %d", v, ca.CacheUseSize)
	}
}
