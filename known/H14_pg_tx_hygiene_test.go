package postgres

// H14 (C13): transaction hygiene of the Postgres backend, against pgxmock.
//  a) a failed statement in Put left the transaction open (aborted on the
//     server), so the next Put ran inside it instead of beginning a new one;
//  b) Abort without a transaction dereferenced nil;
//  c) Stop and Abort left the store in multi-operation mode, so a later single
//     Put was acknowledged but never committed.
// Run with: known/run.sh known/H14_pg_tx_hygiene_test.go db/postgres 'TestKnownH14.*'

import (
	"context"
	"errors"
	"testing"

	"github.com/pashagolub/pgxmock/v4"

	"git.defalsify.org/vise.git/db"
)

func h14Store(t *testing.T) (*pgDb, pgxmock.PgxPoolIface) {
	mock, err := pgxmock.NewPool()
	if err != nil {
		t.Fatal(err)
	}
	store := NewPgDb().WithConnection(mock).WithSchema("vvise")
	store.SetPrefix(db.DATATYPE_USERDATA)
	store.SetSession("xyzzy")
	return store, mock
}

func TestKnownH14a(t *testing.T) {
	ctx := context.Background()
	store, mock := h14Store(t)
	defer mock.Close()
	mock.ExpectBeginTx(defaultTxOptions)
	mock.ExpectExec("INSERT INTO vvise.kv_vise").WithArgs(pgxmock.AnyArg(), pgxmock.AnyArg()).WillReturnError(errors.New("disk full"))
	mock.ExpectRollback()
	mock.ExpectBeginTx(defaultTxOptions)
	mock.ExpectExec("INSERT INTO vvise.kv_vise").WithArgs(pgxmock.AnyArg(), pgxmock.AnyArg()).WillReturnResult(pgxmock.NewResult("UPDATE", 1))
	mock.ExpectCommit()
	if err := store.Put(ctx, []byte("foo"), []byte("bar")); err == nil {
		t.Fatal("the failed statement was not reported")
	}
	if err := store.Put(ctx, []byte("foo"), []byte("bar")); err != nil {
		t.Errorf("H14a: the Put after a failed one does not get a transaction of its own: %v", err)
	}
	if err := mock.ExpectationsWereMet(); err != nil {
		t.Errorf("H14a: %v", err)
	}
}

func TestKnownH14b(t *testing.T) {
	store, mock := h14Store(t)
	defer mock.Close()
	defer func() {
		if r := recover(); r != nil {
			t.Errorf("H14b: Abort without a transaction panics: %v", r)
		}
	}()
	store.Abort(context.Background())
}

func TestKnownH14c(t *testing.T) {
	ctx := context.Background()
	store, mock := h14Store(t)
	defer mock.Close()
	ok := pgxmock.NewResult("UPDATE", 1)
	mock.ExpectBeginTx(defaultTxOptions)
	mock.ExpectExec("INSERT INTO vvise.kv_vise").WithArgs(pgxmock.AnyArg(), pgxmock.AnyArg()).WillReturnResult(ok)
	mock.ExpectCommit()
	// after Stop, a single Put is a transaction of its own again
	mock.ExpectBeginTx(defaultTxOptions)
	mock.ExpectExec("INSERT INTO vvise.kv_vise").WithArgs(pgxmock.AnyArg(), pgxmock.AnyArg()).WillReturnResult(ok)
	mock.ExpectCommit()
	if err := store.Start(ctx); err != nil {
		t.Fatal(err)
	}
	if err := store.Put(ctx, []byte("foo"), []byte("bar")); err != nil {
		t.Fatal(err)
	}
	if err := store.Stop(ctx); err != nil {
		t.Fatal(err)
	}
	if err := store.Put(ctx, []byte("foo"), []byte("baz")); err != nil {
		t.Fatal(err)
	}
	if err := mock.ExpectationsWereMet(); err != nil {
		t.Errorf("H14c: the Put after Stop was acknowledged but never committed: %v", err)
	}
}
