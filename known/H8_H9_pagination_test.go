package render

// H8, H9 (C02): pagination of sink content.
//  H8: when the last row is empty and falls on a page of its own, joinSink
//      records a page start one past the end of the (trimmed) content: the page
//      count promises a page whose rendering panics in Sizer.GetAt
//      (slice bounds out of range).
//  H9: an empty row at the start of a page is dropped (no row separator is
//      written while the page buffer is still empty).
// Run with: known/run.sh known/H8_H9_pagination_test.go render 'TestKnownH[89]'

import (
	"context"
	"fmt"
	"strings"
	"testing"

	"git.defalsify.org/vise.git/cache"
	"git.defalsify.org/vise.git/resource"
)

func h8Walk(t *testing.T, content string, size uint32) (pages []string, err error) {
	defer func() {
		if r := recover(); r != nil {
			err = fmt.Errorf("panic: %v", r)
		}
	}()
	rs := resource.NewMenuResource().WithTemplateGetter(func(ctx context.Context, sym string) (string, error) {
		return "{{.rows}}", nil
	})
	ca := cache.NewCache()
	ca.Push()
	if e := ca.Add("rows", content, 0); e != nil {
		t.Fatal(e)
	}
	mn := NewMenu().WithBrowseConfig(DefaultBrowseConfig())
	pg := NewPage(ca, rs).WithSizer(NewSizer(size)).WithMenu(mn)
	if e := pg.Map("rows"); e != nil {
		t.Fatal(e)
	}
	ctx := context.Background()
	for idx := uint16(0); idx < 64; idx++ {
		r, e := pg.Render(ctx, "node", idx)
		if e != nil {
			if idx == 0 {
				return nil, nil // content does not fit at all at this size: nothing to walk
			}
			return pages, nil
		}
		pages = append(pages, r)
		mn = NewMenu().WithBrowseConfig(DefaultBrowseConfig())
		pg = NewPage(ca, rs).WithSizer(NewSizer(size)).WithMenu(mn)
		pg.Map("rows")
	}
	return pages, nil
}

func TestKnownH8(t *testing.T) {
	content := "aaaaaaaa\nbbbbbbbb\n"
	for size := uint32(14); size < 40; size++ {
		_, err := h8Walk(t, content, size)
		if err != nil {
			t.Errorf("H8: content %q at output size %d: walking the pages: %v", content, size, err)
			return
		}
	}
}

func TestKnownH9(t *testing.T) {
	content := "\naaaa\nbbbb"
	pages, err := h8Walk(t, content, 64)
	if err != nil {
		t.Fatal(err)
	}
	if len(pages) == 0 {
		t.Skip("nothing rendered")
	}
	first := pages[0]
	if i := strings.Index(first, "\n0:"); i >= 0 {
		first = first[:i]
	}
	if !strings.HasPrefix(first, "\n") {
		t.Errorf("H9: content %q: the leading empty row is missing from the first page: %q", content, pages[0])
	}
}

// H27: at some output sizes a page offers 'next' although the page it leads to
// (which needs room for both 'next' and 'previous') exceeds the limit and fails.
func TestKnownH27(t *testing.T) {
	content := "bb\ncccc\nbb\ncccc"
	rs := resource.NewMenuResource().WithTemplateGetter(func(ctx context.Context, sym string) (string, error) {
		return "hdr\n{{.rows}}", nil
	})
	ca := cache.NewCache()
	ca.Push()
	ca.Add("rows", content, 0)
	render := func(idx uint16) (string, error) {
		mn := NewMenu().WithBrowseConfig(DefaultBrowseConfig())
		mn.Put("9", "quit")
		pg := NewPage(ca, rs).WithSizer(NewSizer(22)).WithMenu(mn)
		pg.Map("rows")
		return pg.Render(context.Background(), "node", idx)
	}
	first, err := render(0)
	if err != nil {
		t.Skip(err)
	}
	if !strings.Contains(first, "\n11:") {
		t.Skip("first page does not offer next")
	}
	if _, err := render(1); err != nil {
		t.Errorf("H27: page 0 (%q) offers next, but page 1 does not render: %v", first, err)
	}
}
