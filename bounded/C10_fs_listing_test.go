package fs

// Bounded stand-in for the listing clause of C10 (labelled bounded, never
// counted as proved): the filesystem backend's Dump reads the directory through
// os.ReadDir and an iterator closure, which the contracts do not reach. For
// every set of stored keys from a small universe and every prefix, the real
// Put/Dump/Next are run in a scratch directory and the listing is compared with
// the reference: exactly the stored keys with that prefix, once each, with
// their values. Records of another data type and of another session (whose id
// extends this one's) are stored alongside as noise. Run by /verif/cmd/vcgo
// (check C10) through `go test -overlay`.
//
// Bound: VCGO_BOUND=quick    key universe {a, ab, abc, b, ba, c}: all 64 subsets x 8 prefixes,
//                            without a session and under session "s1"
//        VCGO_BOUND=thorough universe of 8 keys (256 subsets) x 10 prefixes, same two modes,
//                            plus binary-key mode
//
// Classes: H35  listing a data type that is never session-scoped while a session is set
//          unexpected  anything else

import (
	"context"
	"encoding/json"
	"fmt"
	"os"
	"sort"
	"strings"
	"testing"

	"git.defalsify.org/vise.git/db"
)

type c10Failure struct {
	Class  string   `json:"class"`
	Mode   string   `json:"mode"`
	Stored []string `json:"stored_keys"`
	Prefix string   `json:"prefix"`
	Want   []string `json:"expected_listing"`
	Got    []string `json:"got"`
}

func c10List(ctx context.Context, store db.Db, prefix string) ([]string, error) {
	o, err := store.Dump(ctx, []byte(prefix))
	if err != nil {
		if db.IsNotFound(err) {
			return nil, nil
		}
		return nil, err
	}
	var got []string
	for i := 0; i < 64; i++ {
		k, v := o.Next(ctx)
		if k == nil {
			break
		}
		got = append(got, string(k)+"="+string(v))
	}
	return got, nil
}

func TestBoundedC10(t *testing.T) {
	thorough := os.Getenv("VCGO_BOUND") == "thorough"
	ctx := context.Background()
	universe := []string{"a", "ab", "abc", "b", "ba", "c"}
	prefixes := []string{"", "a", "ab", "abc", "abcd", "b", "c", "x"}
	if thorough {
		universe = append(universe, "abd", "bab")
		prefixes = append(prefixes, "ba", "abd")
	}
	type mode struct {
		name    string
		session string
		pfx     uint8
		binary  bool
		class   string
		keys    []string // own key universe (default: universe)
		pfxs    []string // own prefixes (default: prefixes)
	}
	modes := []mode{
		{"userdata, no session", "", db.DATATYPE_USERDATA, false, "unexpected", nil, nil},
		{"userdata, session s1", "s1", db.DATATYPE_USERDATA, false, "unexpected", nil, nil},
		{"template (never session-scoped), session s1 set", "s1", db.DATATYPE_TEMPLATE, false, "H35", nil, nil},
		// binary keys: record names are base64 text, which does not sort like the raw keys
		// (names of keys with a common prefix are not contiguous in the directory listing)
		{"userdata, no session, binary keys with non-contiguous names", "", db.DATATYPE_USERDATA, true, "unexpected",
			[]string{"\x03\x40\x00", "\x00\x00\x00", "\x03\x00\x00", "\xfa\x01", "\x03\x3e"}, []string{"", "\x03", "\x00", "\xfa", "\x03\x40", "\x04"}},
	}
	if thorough {
		modes = append(modes, mode{"userdata, session s1, binary keys", "s1", db.DATATYPE_USERDATA, true, "unexpected", nil, nil})
	}
	universe0, prefixes0 := universe, prefixes
	classes := map[string]int{}
	var examples []c10Failure
	perClass := map[string]int{}
	cases := 0
	for _, m := range modes {
		universe, prefixes := universe0, prefixes0
		if m.keys != nil {
			universe, prefixes = m.keys, m.pfxs
		}
		for mask := 0; mask < 1<<len(universe); mask++ {
			d, err := os.MkdirTemp("", "vcgo-c10-")
			if err != nil {
				t.Fatal(err)
			}
			store := NewFsDb()
			if m.binary {
				store = store.WithBinary()
			}
			if err := store.Connect(ctx, d); err != nil {
				t.Fatal(err)
			}
			store.SetLock(db.DATATYPE_MENU|db.DATATYPE_TEMPLATE, false)
			var stored []string
			// noise: another data type, and another session whose id extends this one's
			store.SetPrefix(db.DATATYPE_STATE)
			store.SetSession(m.session + "0")
			for _, k := range universe {
				if err := store.Put(ctx, []byte(k), []byte("other-session")); err != nil {
					t.Fatal(err)
				}
			}
			store.SetPrefix(m.pfx)
			if m.pfx == db.DATATYPE_USERDATA && m.session != "" {
				for _, k := range universe[:2] {
					if err := store.Put(ctx, []byte(k), []byte("other-session")); err != nil {
						t.Fatal(err)
					}
				}
			}
			store.SetSession(m.session)
			store.SetPrefix(db.DATATYPE_MENU)
			for _, k := range universe[:3] {
				if err := store.Put(ctx, []byte(k), []byte("other-type")); err != nil {
					t.Fatal(err)
				}
			}
			store.SetPrefix(m.pfx)
			for i, k := range universe {
				if mask&(1<<i) == 0 {
					continue
				}
				if err := store.Put(ctx, []byte(k), []byte("v:"+k)); err != nil {
					t.Fatal(err)
				}
				stored = append(stored, k)
			}
			for _, p := range prefixes {
				cases++
				var want []string
				for _, k := range stored {
					if strings.HasPrefix(k, p) {
						want = append(want, k+"=v:"+k)
					}
				}
				sort.Strings(want)
				got, err := c10List(ctx, store, p)
				if err != nil {
					got = []string{"error: " + err.Error()}
				}
				sg := append([]string{}, got...)
				sort.Strings(sg)
				if strings.Join(sg, "\x00") != strings.Join(want, "\x00") {
					classes[m.class]++
					if perClass[m.class] < 4 {
						perClass[m.class]++
						examples = append(examples, c10Failure{m.class, m.name, stored, p, want, got})
					}
				}
			}
			os.RemoveAll(d)
		}
	}
	var unexpected []c10Failure
	for _, e := range examples {
		if e.Class == "unexpected" {
			unexpected = append(unexpected, e)
		}
	}
	out, _ := json.Marshal(map[string]interface{}{"cases": cases, "classes": classes, "examples": examples, "unexpected": unexpected,
		"bound": fmt.Sprintf("filesystem backend, text keys%s: every subset of %d keys %v x %d prefixes %q, in %d modes (no session; session s1 with records of session s10 and of other data types alongside; a never-session-scoped type with a session set; binary keys %x whose base64 names are not contiguous per prefix, every subset x prefixes %x)",
			map[bool]string{true: " and binary keys", false: ""}[thorough], len(universe0), universe0, len(prefixes0), prefixes0, len(modes), modes[3].keys, modes[3].pfxs)})
	fmt.Printf("BOUNDED-RESULT %s\n", strings.ReplaceAll(string(out), "\n", " "))
}
