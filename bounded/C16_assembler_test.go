package asm

// Bounded stand-in for C16 (labelled bounded, never counted as proved): the
// lexer and grammar of the assembler are built by reflection (participle) and
// are outside the verifier's reach. Assembly programs generated from the
// documented grammar are assembled with the real Parse, disassembled with the
// real vm.ParseHandler.ToString, and compared with what was written. Run by
// /verif/cmd/vcgo (check C16) through `go test -overlay`.
//
// Bound: VCGO_BOUND=quick    every single line of the grammar over the value sets below (about 1500 lines),
//                            all pairs of a reduced line set, menu batches of 1..2 lines
//        VCGO_BOUND=thorough plus all triples of the reduced set and menu batches of 1..3 lines

import (
	"bytes"
	"encoding/json"
	"fmt"
	"os"
	"regexp"
	"strings"
	"sync"
	"testing"

	"git.defalsify.org/vise.git/vm"
)

type c16Line struct {
	src    string // as written
	expect string // canonical disassembly of what was written
	sel    string // the selector argument, if any
}

type c16Failure struct {
	Class  string `json:"class"`
	Source string `json:"source"`
	Expect string `json:"expected_disassembly"`
	Got    string `json:"got"`
}

var (
	c16Syms      = []string{"foo", "a1", "x_y", "zED09", "b"}
	c16Targets   = []string{"foo", "_", "^", ".", "<", ">"}
	c16Selectors = []string{"1", "0", "7", "10", "42", "00", "01", "007", "a", "ab", "x1", "1a", "12b", "*", "b_c"}
	c16Sizes     = []uint32{0, 1, 2, 255, 256, 65535, 65536, 16777215, 16777216, 4294967295}
	c16Flags     = []uint32{0, 1, 8, 255, 256, 65536}
	c16DigitsLed = regexp.MustCompile(`^(0[0-9]+|[0-9]+[a-zA-Z_][a-zA-Z0-9_]*)$`)
)

func c16Singles() []c16Line {
	var ls []c16Line
	add := func(src, exp, sel string) { ls = append(ls, c16Line{src + "\n", exp + "\n", sel}) }
	add("HALT", "HALT", "")
	add("MSINK", "MSINK", "")
	for _, s := range c16Syms {
		add("MAP "+s, "MAP "+s, "")
		add("RELOAD "+s, "RELOAD "+s, "")
		for _, n := range c16Sizes {
			add(fmt.Sprintf("LOAD %s %d", s, n), fmt.Sprintf("LOAD %s %d", s, n), "")
		}
		for _, f := range c16Flags {
			for _, m := range []int{0, 1} {
				add(fmt.Sprintf("CATCH %s %d %d", s, f, m), fmt.Sprintf("CATCH %s %d %d", s, f, m), "")
			}
		}
	}
	for _, f := range c16Flags {
		for _, m := range []int{0, 1} {
			add(fmt.Sprintf("CROAK %d %d", f, m), fmt.Sprintf("CROAK %d %d", f, m), "")
		}
	}
	for _, s := range c16Targets {
		add("MOVE "+s, "MOVE "+s, "")
		for _, sel := range c16Selectors {
			add("INCMP "+s+" "+sel, "INCMP "+s+" "+sel, sel)
		}
	}
	for _, s := range c16Syms {
		for _, sel := range c16Selectors {
			if sel == "*" {
				continue
			}
			add("MOUT "+s+" "+sel, "MOUT "+s+" "+sel, sel)
			add("MNEXT "+s+" "+sel, "MNEXT "+s+" "+sel, sel)
			add("MPREV "+s+" "+sel, "MPREV "+s+" "+sel, sel)
		}
	}
	return ls
}

type c16Menu struct {
	src        string
	pre, post  string
	sel        string
}

func c16MenuLines() []c16Menu {
	var ms []c16Menu
	for _, sel := range []string{"1", "0", "00", "2b", "x"} {
		for _, d := range []string{"go", "to_it"} {
			ms = append(ms, c16Menu{fmt.Sprintf("DOWN foo %s %s\n", sel, d), fmt.Sprintf("MOUT %s %s\n", d, sel), fmt.Sprintf("INCMP foo %s\n", sel), sel})
			ms = append(ms, c16Menu{fmt.Sprintf("UP %s %s\n", sel, d), fmt.Sprintf("MOUT %s %s\n", d, sel), fmt.Sprintf("INCMP _ %s\n", sel), sel})
			ms = append(ms, c16Menu{fmt.Sprintf("NEXT %s %s\n", sel, d), fmt.Sprintf("MNEXT %s %s\n", d, sel), fmt.Sprintf("INCMP > %s\n", sel), sel})
			ms = append(ms, c16Menu{fmt.Sprintf("PREVIOUS %s %s\n", sel, d), fmt.Sprintf("MPREV %s %s\n", d, sel), fmt.Sprintf("INCMP < %s\n", sel), sel})
		}
	}
	return ms
}

// a source the assembler must refuse (a selector of more than 255 bytes): assembled before
// every tenth case, so that anything a refused source leaves behind in the assembler
// (package-level buffers, pools) would show up in the next program's bytes
var c16Refused = "INCMP foo " + strings.Repeat("x", 300) + "\n"
var c16Count int

func c16Assemble(src string) (string, error) {
	defer func() { recover() }()
	c16Count++
	if c16Count%10 == 0 {
		func() {
			defer func() { recover() }()
			Parse(c16Refused, bytes.NewBuffer(nil))
		}()
	}
	w := bytes.NewBuffer(nil)
	if _, err := Parse(src, w); err != nil {
		return "", fmt.Errorf("assemble: %v", err)
	}
	ph := vm.NewParseHandler().WithDefaultHandlers()
	s, err := ph.ToString(w.Bytes())
	if err != nil {
		return s, fmt.Errorf("disassemble: %v", err)
	}
	return s, nil
}

func TestBoundedC16(t *testing.T) {
	thorough := os.Getenv("VCGO_BOUND") == "thorough"
	cases := 0
	classes := map[string]int{}
	var examples, unexpected []c16Failure
	check := func(src, expect string, sels []string) {
		cases++
		got, err := c16Assemble(src)
		if err == nil && got == expect {
			return
		}
		if err != nil {
			got = got + " [" + err.Error() + "]"
		}
		class := "unexpected"
		for _, s := range sels {
			if c16DigitsLed.MatchString(s) {
				class = "H15"
			}
		}
		classes[class]++
		f := c16Failure{class, src, expect, got}
		if class == "unexpected" {
			if len(unexpected) < 6 {
				unexpected = append(unexpected, f)
			}
		} else if classes[class] <= 2 {
			examples = append(examples, f)
		}
	}
	singles := c16Singles()
	for _, l := range singles {
		check(l.src, l.expect, []string{l.sel})
		// a comment after the instruction, a blank line after it
		check(strings.TrimSuffix(l.src, "\n")+" # note\n\n", l.expect, []string{l.sel})
	}
	// programs: one instruction per source line, in order
	var reduced []c16Line
	for i, l := range singles {
		if i%37 == 0 {
			reduced = append(reduced, l)
		}
	}
	for _, a := range reduced {
		for _, b := range reduced {
			check(a.src+b.src, a.expect+b.expect, []string{a.sel, b.sel})
			if thorough {
				for _, c := range reduced {
					check(a.src+b.src+c.src, a.expect+b.expect+c.expect, []string{a.sel, b.sel, c.sel})
				}
			}
		}
	}
	// menu batches: MOUT/MNEXT/MPREV lines, HALT, INCMP lines; a following instruction closes the batch
	menus := c16MenuLines()
	maxBatch := 2
	if thorough {
		maxBatch = 3
	}
	var gen func(cur []c16Menu)
	gen = func(cur []c16Menu) {
		if len(cur) > 0 {
			var src, pre, post string
			var sels []string
			for _, m := range cur {
				src += m.src
				pre += m.pre
				post += m.post
				sels = append(sels, m.sel)
			}
			check(src, pre+"HALT\n"+post, sels)
			check(src+"MOVE foo\n", pre+"HALT\n"+post+"MOVE foo\n", sels)
		}
		if len(cur) == maxBatch {
			return
		}
		for i, m := range menus {
			if len(cur) > 0 && i%3 != 0 {
				continue
			}
			gen(append(cur, m))
		}
	}
	gen(nil)
	// two batches in one source, separated by an ordinary instruction: each expands on its own
	for i, m1 := range menus {
		for j, m2 := range menus {
			if !thorough && (i%3 != 0 && j%3 != 0) {
				continue
			}
			check(m1.src+"MOVE foo\n"+m2.src, m1.pre+"HALT\n"+m1.post+"MOVE foo\n"+m2.pre+"HALT\n"+m2.post, []string{m1.sel, m2.sel})
			check(m1.src+"MOVE foo\n"+m2.src+"MOVE bar\n", m1.pre+"HALT\n"+m1.post+"MOVE foo\n"+m2.pre+"HALT\n"+m2.post+"MOVE bar\n", []string{m1.sel, m2.sel})
		}
	}
	// numSize (floating point, assumed by the proof part): the number of bytes of n.
	// thorough: every n in 1..2^32-1 (complete for this function); quick: 4096 values
	// around every power of 256 and every 4099th value.
	want := func(n uint32) int {
		switch {
		case n < 1<<8:
			return 1
		case n < 1<<16:
			return 2
		case n < 1<<24:
			return 3
		}
		return 4
	}
	var nsChecked uint64
	var nsBad []uint32
	var mu sync.Mutex
	var wg sync.WaitGroup
	scan := func(lo, hi uint64, step uint64) {
		defer wg.Done()
		var bad []uint32
		var cnt uint64
		for n := lo; n < hi; n += step {
			if n == 0 {
				continue
			}
			cnt++
			if numSize(uint32(n)) != want(uint32(n)) && len(bad) < 4 {
				bad = append(bad, uint32(n))
			}
		}
		mu.Lock()
		nsChecked += cnt
		nsBad = append(nsBad, bad...)
		mu.Unlock()
	}
	if thorough {
		const parts = 64
		for p := uint64(0); p < parts; p++ {
			wg.Add(1)
			go scan(p*(1<<32)/parts, (p+1)*(1<<32)/parts, 1)
		}
	} else {
		for _, c := range []uint64{1, 1 << 8, 1 << 16, 1 << 24, 1 << 32} {
			lo := uint64(1)
			if c > 2048 {
				lo = c - 2048
			}
			hi := c + 2048
			if hi > 1<<32 {
				hi = 1 << 32
			}
			wg.Add(1)
			go scan(lo, hi, 1)
		}
		wg.Add(1)
		go scan(1, 1<<32, 4099)
	}
	wg.Wait()
	cases += int(nsChecked)
	for _, n := range nsBad {
		classes["unexpected"]++
		if len(unexpected) < 6 {
			unexpected = append(unexpected, c16Failure{"unexpected", fmt.Sprintf("numSize(%d)", n), fmt.Sprint(want(n)), fmt.Sprint(numSize(n))})
		}
	}
	out, _ := json.Marshal(map[string]interface{}{"cases": cases, "numsize_arguments_checked": nsChecked, "classes": classes, "examples": examples, "unexpected": unexpected,
		"bound": fmt.Sprintf("%d single lines (every opcode; %d symbols, %d targets, %d selectors, %d sizes, %d flags), with and without a trailing comment and a blank line; all pairs%s of %d of them; menu batches of 1..%d lines from %d menu lines, alone and followed by an instruction; two one-line batches separated by an instruction",
			len(singles), len(c16Syms), len(c16Targets), len(c16Selectors), len(c16Sizes), len(c16Flags), map[bool]string{true: " and triples", false: ""}[thorough], len(reduced), maxBatch, len(menus))})
	fmt.Printf("BOUNDED-RESULT %s\n", strings.ReplaceAll(string(out), "\n", " "))
}
