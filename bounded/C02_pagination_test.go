package render

// Bounded stand-in for the content part of C02 (labelled bounded, never counted
// as proved): the real Page.Render is run for every page index over all row
// lists up to a bound and a range of output sizes, and the pages are compared
// with the rows. Run by /verif/cmd/vcgo (check C02) through `go test -overlay`;
// nothing is written to the repository.
//
// Bound: VCGO_BOUND=quick    rows from {"", "a", "bb", "cccc"}, up to 4 rows, 12 output sizes
//        VCGO_BOUND=thorough rows from {"", "a", "bb", "cccc", "eeeeee"}, up to 5 rows, 40 output sizes

import (
	"context"
	"encoding/json"
	"fmt"
	"os"
	"strings"
	"testing"

	"git.defalsify.org/vise.git/cache"
	"git.defalsify.org/vise.git/resource"
)

type c02Failure struct {
	Class  string   `json:"class"`
	Rows   []string `json:"rows"`
	Size   uint32   `json:"output_size"`
	Detail string   `json:"detail"`
}

const c02Header = "hdr"

func c02Page(ca *cache.Cache, rs resource.Resource, size uint32) (*Page, *Menu) {
	mn := NewMenu().WithBrowseConfig(DefaultBrowseConfig())
	mn.Put("9", "quit")
	pg := NewPage(ca, rs).WithSizer(NewSizer(size)).WithMenu(mn)
	pg.Map("rows")
	return pg, mn
}

// walk returns the sink rows shown on each page, and what the menu offered.
func c02Walk(rows []string, size uint32) (pages [][]string, next []bool, prev []bool, pastEndErr bool, detail string, panicked bool, endErr string) {
	defer func() {
		if r := recover(); r != nil {
			panicked = true
			detail = fmt.Sprintf("panic: %v", r)
		}
	}()
	rs := resource.NewMenuResource().WithTemplateGetter(func(ctx context.Context, sym string) (string, error) {
		return c02Header + "\n{{.rows}}", nil
	})
	ca := cache.NewCache()
	ca.Push()
	if err := ca.Add("rows", strings.Join(rows, "\n"), 0); err != nil {
		return nil, nil, nil, true, "", false, ""
	}
	ctx := context.Background()
	for idx := uint16(0); idx < 250; idx++ {
		pg, _ := c02Page(ca, rs, size)
		r, err := pg.Render(ctx, "node", idx)
		if err != nil {
			pastEndErr = true
			endErr = err.Error()
			return
		}
		if uint32(len(r)) > size {
			detail = fmt.Sprintf("page %d has %d bytes", idx, len(r))
		}
		if !strings.HasPrefix(r, c02Header+"\n") {
			detail = fmt.Sprintf("page %d lacks the static template text: %q", idx, r)
			return
		}
		body := r[len(c02Header)+1:]
		// the menu part: lines "sel:title" at the end; rows never contain ':'
		lines := strings.Split(body, "\n")
		cut := len(lines)
		n, p, q := false, false, false
		for cut > 0 && strings.Contains(lines[cut-1], ":") {
			switch {
			case strings.HasPrefix(lines[cut-1], "11:"):
				n = true
			case strings.HasPrefix(lines[cut-1], "22:"):
				p = true
			case strings.HasPrefix(lines[cut-1], "9:"):
				q = true
			}
			cut--
		}
		if !q {
			detail = fmt.Sprintf("page %d lacks the ordinary menu: %q", idx, r)
			return
		}
		pages = append(pages, lines[:cut])
		next = append(next, n)
		prev = append(prev, p)
	}
	return
}

func TestBoundedC02(t *testing.T) {
	alphabet := []string{"", "a", "bb", "cccc"}
	maxRows, nSizes := 4, 12
	if os.Getenv("VCGO_BOUND") == "thorough" {
		alphabet = append(alphabet, "eeeeee")
		maxRows, nSizes = 5, 40
	}
	var lists [][]string
	var gen func(cur []string)
	gen = func(cur []string) {
		if len(cur) > 0 {
			lists = append(lists, append([]string(nil), cur...))
		}
		if len(cur) == maxRows {
			return
		}
		for _, a := range alphabet {
			gen(append(cur, a))
		}
	}
	gen(nil)
	cases, skipped := 0, 0
	classes := map[string]int{}
	var examples []c02Failure
	var unexpected []c02Failure
	record := func(class string, rows []string, size uint32, detail string) {
		classes[class]++
		f := c02Failure{class, rows, size, detail}
		if class == "unexpected" {
			if len(unexpected) < 5 {
				unexpected = append(unexpected, f)
			}
		} else if classes[class] == 1 {
			examples = append(examples, f)
		}
	}
	for _, rows := range lists {
		total := len(strings.Join(rows, "\n"))
		hasEmpty := false
		for _, r := range rows {
			if r == "" {
				hasEmpty = true
			}
		}
		for s := 0; s < nSizes; s++ {
			size := uint32(len(c02Header) + 1 + len("\n9:quit") + 8 + s + total/4)
			pages, next, prev, past, detail, panicked, endErr := c02Walk(rows, size)
			if len(pages) == 0 && !panicked {
				skipped++ // does not fit at all at this size
				continue
			}
			cases++
			switch {
			case panicked && rows[len(rows)-1] == "":
				record("H8", rows, size, detail)
				continue
			case panicked:
				record("unexpected", rows, size, detail)
				continue
			case detail != "":
				record("unexpected", rows, size, detail)
				continue
			}
			// a page that offered 'next' must be followed by a page that renders
			if len(pages) > 0 && next[len(pages)-1] && strings.Contains(endErr, "limit exceeded") {
				record("H27", rows, size, fmt.Sprintf("page %d offers next, page %d fails: %s", len(pages)-1, len(pages), endErr))
				continue
			}
			var got []string
			for _, p := range pages {
				got = append(got, p...)
			}
			if strings.Join(got, "\x01") != strings.Join(rows, "\x01") {
				var a, b []string
				for _, r := range got {
					if r != "" {
						a = append(a, r)
					}
				}
				for _, r := range rows {
					if r != "" {
						b = append(b, r)
					}
				}
				if hasEmpty && strings.Join(a, "\x01") == strings.Join(b, "\x01") {
					record("H9", rows, size, fmt.Sprintf("pages show %q", got))
				} else {
					record("unexpected", rows, size, fmt.Sprintf("pages show %q", got))
				}
				continue
			}
			for i := range pages {
				if next[i] != (i < len(pages)-1) || prev[i] != (i > 0) {
					record("unexpected", rows, size, fmt.Sprintf("page %d of %d offers next=%v previous=%v", i, len(pages), next[i], prev[i]))
				}
			}
			if !past {
				record("unexpected", rows, size, "no error past the last page")
			}
		}
	}
	// long walks: many pages of equal, non-empty rows (defects that need many page breaks)
	longMax, longSizes := 64, []uint32{60, 100, 160}
	if os.Getenv("VCGO_BOUND") == "thorough" {
		longMax, longSizes = 200, []uint32{48, 60, 80, 100, 160, 255}
	}
	for n := 1; n <= longMax; n++ {
		var rows []string
		for i := 0; i < n; i++ {
			rows = append(rows, fmt.Sprintf("r%03dxxxxxx", i))
		}
		for _, size := range longSizes {
			pages, next, prev, past, detail, panicked, endErr := c02Walk(rows, size)
			if len(pages) == 0 && !panicked {
				skipped++
				continue
			}
			cases++
			var got []string
			for _, p := range pages {
				got = append(got, p...)
			}
			switch {
			case panicked || detail != "":
				record("unexpected", rows[:1], size, fmt.Sprintf("%d equal rows: %s", n, detail))
			case len(pages) > 0 && next[len(pages)-1] && strings.Contains(endErr, "limit exceeded"):
				if len(pages) <= 3 {
					record("H27", rows[:1], size, fmt.Sprintf("%d equal rows: page %d offers next, page %d fails: %s", n, len(pages)-1, len(pages), endErr))
				} else {
					record("unexpected", rows[:1], size, fmt.Sprintf("%d equal rows: page %d offers next, page %d fails: %s", n, len(pages)-1, len(pages), endErr))
				}
			case strings.Join(got, "\x01") != strings.Join(rows, "\x01"):
				record("unexpected", rows[:1], size, fmt.Sprintf("%d equal rows: %d rows shown on %d pages", n, len(got), len(pages)))
			case !past:
				record("unexpected", rows[:1], size, "no error past the last page")
			default:
				for i := range pages {
					if next[i] != (i < len(pages)-1) || prev[i] != (i > 0) {
						record("unexpected", rows[:1], size, fmt.Sprintf("%d equal rows: page %d of %d offers next=%v previous=%v", n, i, len(pages), next[i], prev[i]))
					}
				}
			}
		}
	}
	out, _ := json.Marshal(map[string]interface{}{"cases": cases, "skipped_not_fitting": skipped, "row_lists": len(lists), "classes": classes, "examples": examples, "unexpected": unexpected,
		"bound": fmt.Sprintf("rows from %q, 1..%d rows, %d output sizes per list, every page index; plus 1..%d equal 10-byte rows at output sizes %v", alphabet, maxRows, nSizes, longMax, longSizes)})
	fmt.Printf("BOUNDED-RESULT %s\n", out)
}
