#!/bin/sh
# Must-fail corpus: every mutant (a sed-style edit described in selftest/mutants/*.mut)
# is applied to a scratch copy of /repo and must make the named property's check
# report a VIOLATION. Usage: selftest/run.sh [pattern]
cd "$(dirname "$0")/.." || exit 2
export GOFLAGS=-mod=mod GOPROXY=off GOSUMDB=off GOTOOLCHAIN=local
go build -o bin/vcgo ./cmd/vcgo || exit 2
T=$(mktemp -d)
trap 'rm -rf "$T"' EXIT
fail=0; n=0
for m in selftest/mutants/${1:-*}.mut; do
  [ -f "$m" ] || continue
  n=$((n+1))
  prop=$(sed -n 's/^# property: //p' "$m")
  file=$(sed -n 's/^# file: //p' "$m")
  rm -rf "$T/repo"; mkdir -p "$T/repo"
  rsync -a --exclude .git /repo/ "$T/repo/"
  python3 selftest/apply.py "$m" "$T/repo/$file" || { echo "MUTANT-NOT-APPLICABLE $m"; fail=1; continue; }
  out=$(bin/vcgo check -prop "$prop" -repo "$T/repo" -no-evidence 2>&1)
  if echo "$out" | grep -q "^VIOLATION property=$prop"; then
    echo "caught   $(basename "$m" .mut): $(echo "$out" | grep '^failed obligation' | head -1 | cut -c1-150)"
  else
    echo "MISSED   $(basename "$m" .mut)"; echo "$out" | tail -3; fail=1
  fi
done
echo "selftest: $n mutants, fail=$fail"
exit $fail
