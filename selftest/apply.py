#!/usr/bin/env python3
# apply a .mut file: lines "# key: value" header, then blocks
#   <<<<
#   old text
#   ====
#   new text
#   >>>>
import sys
m, target = sys.argv[1], sys.argv[2]
src = open(target).read()
txt = open(m).read()
i = 0
n = 0
while True:
    a = txt.find("<<<<\n", i)
    if a < 0:
        break
    b = txt.index("\n====\n", a)
    c = txt.index("\n>>>>", b)
    old = txt[a + 5:b]
    new = txt[b + 6:c]
    if src.count(old) != 1:
        sys.stderr.write("pattern occurs %d times: %r\n" % (src.count(old), old))
        sys.exit(1)
    src = src.replace(old, new)
    i = c
    n += 1
if n == 0:
    sys.exit(1)
open(target, "w").write(src)
