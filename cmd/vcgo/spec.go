package main

// Evaluation of specification expressions (Go expression syntax + a few spec
// builtins) over the symbolic state.

import (
	"fmt"
	"go/ast"
	"go/constant"
	"go/token"
	"go/types"
	"strconv"
	"strings"

	"golang.org/x/tools/go/ssa"
)

type Env struct {
	c        *Ctx
	pkg      *types.Package
	vars     map[string]Val
	st       *State
	old      *State
	fr       *Frame // resolve free identifiers as current locals of this frame
	rng      *iterKey
	oldTop   T // allocation frontier of the old state (for fresh())
	at       string
	inAxiom  bool           // evaluating an `axiom` clause: quantifiers range over all mathematical values
	loopPre  *State         // state at loop entry (before havoc), for loopold()/loopfresh()
	iterHead *State         // state at the head of the current loop iteration (call-site assertions)
	guard    *[]T           // when set: collects "dereferenced object is not nil" conditions (designators)
	params   map[string]Val // entry values of the formals (visible when no local shadows them)
}

func (e *Env) with(st *State) *Env {
	n := *e
	n.st = st
	return &n
}

func (e *Env) bind(name string, v Val) *Env {
	n := *e
	n.vars = map[string]Val{}
	for k, x := range e.vars {
		n.vars[k] = x
	}
	n.vars[name] = v
	return &n
}

type specErr struct{ msg string }

func (s specErr) Error() string { return "spec: " + s.msg }

func (e *Env) fail(format string, a ...interface{}) {
	panic(specErr{fmt.Sprintf(format, a...) + " [" + e.at + "]"})
}

var (
	tInt  = types.Typ[types.Int]
	tBool = types.Typ[types.Bool]
	tStr  = types.Typ[types.String]
	tUInt = types.Typ[types.UntypedInt]
	tUNil = types.Typ[types.UntypedNil]
	tByte = types.Typ[types.Uint8]
)

func boolVal(t T) Val { return Val{Typ: tBool, L: []T{t}} }
func intVal(t T) Val  { return Val{Typ: tUInt, L: []T{t}} }

func (e *Env) evalBool(x ast.Expr) T {
	v := e.eval(x)
	if len(v.L) != 1 || !isBoolean(v.Typ) {
		e.fail("expression %s is not boolean (type %v)", exprString(x), v.Typ)
	}
	return v.L[0]
}

func (e *Env) evalInt(x ast.Expr) T {
	v := e.eval(x)
	if len(v.L) != 1 {
		e.fail("expression %s is not scalar", exprString(x))
	}
	return v.L[0]
}

func exprString(x ast.Expr) string {
	return types.ExprString(x)
}

func (e *Env) eval(x ast.Expr) Val {
	switch x := x.(type) {
	case *ast.ParenExpr:
		return e.eval(x.X)
	case *ast.BasicLit:
		switch x.Kind {
		case token.INT:
			v, ok := new(bigInt).SetString(x.Value, 0)
			if !ok {
				e.fail("bad int literal %s", x.Value)
			}
			return intVal(numBig(v))
		case token.STRING:
			s, err := strconv.Unquote(x.Value)
			if err != nil {
				e.fail("bad string literal %s", x.Value)
			}
			return Val{Typ: tStr, L: []T{e.c.strLit(s)}}
		case token.CHAR:
			s, _, _, err := strconv.UnquoteChar(x.Value[1:len(x.Value)-1], '\'')
			if err != nil {
				e.fail("bad char literal %s", x.Value)
			}
			return intVal(num(int64(s)))
		}
		e.fail("unsupported literal %s", x.Value)
	case *ast.Ident:
		return e.ident(x.Name)
	case *ast.SelectorExpr:
		if id, ok := x.X.(*ast.Ident); ok {
			_, isParam := e.params[id.Name]
			if _, bound := e.vars[id.Name]; !bound && !isParam && (e.fr == nil || e.fr.localByName(id.Name, e) == nil) {
				if p := e.c.P.lookupPkgByName(e.pkg, id.Name); p != nil {
					return e.pkgMember(p, x.Sel.Name)
				}
			}
		}
		return e.field(e.eval(x.X), x.Sel.Name)
	case *ast.StarExpr:
		p := e.eval(x.X)
		return e.c.loadBox(e.st, deref(p.Typ), p.one())
	case *ast.IndexExpr:
		// generic-looking spec builtin?  all[T](...) is parsed as Call{Fun: IndexExpr}
		base := e.eval(x.X)
		return e.index(base, x.Index)
	case *ast.SliceExpr:
		return e.slice(x)
	case *ast.UnaryExpr:
		switch x.Op {
		case token.NOT:
			return boolVal(not(e.evalBool(x.X)))
		case token.SUB:
			return intVal(app("-", e.evalInt(x.X)))
		case token.AND:
			// &x.f not supported in specs
		}
		e.fail("unsupported unary %s", x.Op)
	case *ast.BinaryExpr:
		return e.binary(x)
	case *ast.CallExpr:
		return e.call(x)
	}
	e.fail("unsupported expression %s (%T)", exprString(x), x)
	panic("unreachable")
}

func (e *Env) ident(name string) Val {
	if v, ok := e.vars[name]; ok {
		return v
	}
	switch name {
	case "true":
		return boolVal("true")
	case "false":
		return boolVal("false")
	case "nil":
		return Val{Typ: tUNil, L: []T{"0"}}
	}
	if e.fr != nil {
		if a := e.fr.localByName(name, e); a != nil {
			return e.c.readAlloc(e.fr, e.st, a)
		}
	}
	if v, ok := e.params[name]; ok {
		return v
	}
	if e.pkg != nil {
		if obj := e.pkg.Scope().Lookup(name); obj != nil {
			return e.object(obj)
		}
	}
	e.fail("unknown identifier %s", name)
	panic("unreachable")
}

func (e *Env) pkgMember(p *types.Package, name string) Val {
	obj := p.Scope().Lookup(name)
	if obj == nil {
		e.fail("package %s has no member %s", p.Name(), name)
	}
	return e.object(obj)
}

func (e *Env) object(obj types.Object) Val {
	switch o := obj.(type) {
	case *types.Const:
		return e.c.constVal(o.Type(), o.Val())
	case *types.Var:
		sp := e.c.P.Prog.Package(o.Pkg())
		if sp != nil {
			if g, ok := sp.Members[o.Name()].(*ssa.Global); ok {
				return e.c.readGlobal(e.st, g)
			}
		}
	}
	e.fail("cannot use %v in a specification", obj)
	panic("unreachable")
}

func (c *Ctx) constVal(t types.Type, v constant.Value) Val {
	switch v.Kind() {
	case constant.Bool:
		if constant.BoolVal(v) {
			return Val{Typ: t, L: []T{"true"}}
		}
		return Val{Typ: t, L: []T{"false"}}
	case constant.String:
		return Val{Typ: t, L: []T{c.strLit(constant.StringVal(v))}}
	case constant.Int:
		b, ok := new(bigInt).SetString(v.ExactString(), 10)
		if !ok {
			panic(unsupported("constant " + v.ExactString()))
		}
		return Val{Typ: t, L: []T{numBig(b)}}
	}
	panic(unsupported("constant kind " + v.Kind().String()))
}

// field selects x.name, auto-dereferencing pointers and following embedded
// fields.
func (e *Env) field(x Val, name string) Val {
	t := x.Typ
	obj, index, _ := types.LookupFieldOrMethod(t, true, e.pkgOfType(t), name)
	fv, ok := obj.(*types.Var)
	if !ok || fv == nil {
		e.fail("type %v has no field %s", t, name)
	}
	cur := x
	for _, i := range index {
		if e.guard != nil {
			if _, isPtr := cur.Typ.Underlying().(*types.Pointer); isPtr {
				*e.guard = append(*e.guard, not(eq(cur.one(), "0")))
			}
		}
		cur = e.c.selectField(e.st, cur, i)
	}
	return cur
}

func (e *Env) pkgOfType(t types.Type) *types.Package {
	t = deref(t)
	if n, ok := t.(*types.Named); ok && n.Obj() != nil {
		return n.Obj().Pkg()
	}
	return e.pkg
}

// selectField: field i of struct value or pointer-to-struct value.
func (c *Ctx) selectField(st *State, x Val, i int) Val {
	if p, ok := x.Typ.Underlying().(*types.Pointer); ok {
		s := p.Elem().Underlying().(*types.Struct)
		return c.loadField(st, p.Elem(), s.Field(i), x.one())
	}
	s, ok := x.Typ.Underlying().(*types.Struct)
	if !ok {
		panic(specErr{fmt.Sprintf("field selection on non-struct %v", x.Typ)})
	}
	lo, hi := fieldRange(x.Typ, i)
	return Val{Typ: s.Field(i).Type(), L: x.L[lo:hi]}
}

func (e *Env) index(base Val, ix ast.Expr) Val {
	switch u := base.Typ.Underlying().(type) {
	case *types.Slice:
		i := e.evalInt(ix)
		return e.c.loadElem(e.st, u.Elem(), base.L[0], slIdx(base.L[1], i))
	case *types.Map:
		k := e.eval(ix)
		return e.c.mapGet(e.st, u, base.one(), k.one())
	case *types.Basic:
		if isString(base.Typ) {
			i := e.evalInt(ix)
			return Val{Typ: tByte, L: []T{app("sbyte", base.one(), i)}}
		}
	case *types.Array:
		i := e.evalInt(ix)
		return e.c.arrayIndex(base, i)
	case *types.Pointer:
		if a, ok := u.Elem().Underlying().(*types.Array); ok {
			i := e.evalInt(ix)
			return e.c.loadElem(e.st, a.Elem(), base.one(), i)
		}
	}
	e.fail("cannot index value of type %v", base.Typ)
	panic("unreachable")
}

// arrayIndex picks element i (symbolic) of a flat array value.
func (c *Ctx) arrayIndex(a Val, i T) Val {
	at := a.Typ.Underlying().(*types.Array)
	n := int(at.Len())
	el := len(leavesOf(at.Elem()))
	if k, err := strconv.Atoi(i); err == nil && k >= 0 && k < n {
		return Val{Typ: at.Elem(), L: a.L[k*el : (k+1)*el]}
	}
	out := Val{Typ: at.Elem(), L: make([]T, el)}
	for j := 0; j < el; j++ {
		r := a.L[(n-1)*el+j]
		for k := n - 2; k >= 0; k-- {
			r = ite(eq(i, num(int64(k))), a.L[k*el+j], r)
		}
		out.L[j] = r
	}
	return out
}

func (e *Env) slice(x *ast.SliceExpr) Val {
	base := e.eval(x.X)
	lo, hi := T("0"), T("")
	if x.Low != nil {
		lo = e.evalInt(x.Low)
	}
	if x.High != nil {
		hi = e.evalInt(x.High)
	}
	switch base.Typ.Underlying().(type) {
	case *types.Slice:
		if hi == "" {
			hi = base.L[2]
		}
		return Val{Typ: base.Typ, L: []T{base.L[0], add(base.L[1], lo), sub(hi, lo), sub(base.L[3], lo)}}
	case *types.Basic:
		if isString(base.Typ) {
			if hi == "" {
				hi = app("slen", base.one())
			}
			return Val{Typ: base.Typ, L: []T{e.c.substr(base.one(), lo, hi)}}
		}
	}
	e.fail("cannot slice %v", base.Typ)
	panic("unreachable")
}

func (e *Env) binary(x *ast.BinaryExpr) Val {
	switch x.Op {
	case token.LAND:
		return boolVal(and(e.evalBool(x.X), e.evalBool(x.Y)))
	case token.LOR:
		return boolVal(or(e.evalBool(x.X), e.evalBool(x.Y)))
	}
	a, b := e.eval(x.X), e.eval(x.Y)
	switch x.Op {
	case token.EQL:
		return boolVal(e.c.valEq(a, b))
	case token.NEQ:
		return boolVal(not(e.c.valEq(a, b)))
	}
	if isString(a.Typ) && x.Op == token.ADD {
		return Val{Typ: a.Typ, L: []T{e.c.concat(a.one(), b.one())}}
	}
	if len(a.L) != 1 || len(b.L) != 1 {
		e.fail("operator %s on non-scalar operands", x.Op)
	}
	p, q := a.L[0], b.L[0]
	rt := a.Typ
	if rt == tUInt {
		rt = b.Typ
	}
	switch x.Op {
	case token.LSS:
		return boolVal(lt(p, q))
	case token.LEQ:
		return boolVal(le(p, q))
	case token.GTR:
		return boolVal(gt(p, q))
	case token.GEQ:
		return boolVal(ge(p, q))
	case token.ADD:
		return Val{Typ: tUInt, L: []T{add(p, q)}}
	case token.SUB:
		return Val{Typ: tUInt, L: []T{sub(p, q)}}
	case token.MUL:
		return Val{Typ: tUInt, L: []T{app("*", p, q)}}
	case token.QUO:
		return Val{Typ: tUInt, L: []T{app("div", p, q)}}
	case token.REM:
		return Val{Typ: tUInt, L: []T{app("mod", p, q)}}
	case token.SHL:
		if k, err := strconv.Atoi(q); err == nil {
			return Val{Typ: tUInt, L: []T{app("*", p, numBig(pow2(uint(k))))}}
		}
	case token.AND, token.OR, token.XOR:
		bits := uint(8)
		if lo, hi, ok := intRange(rt); ok && rt != tUInt {
			_ = lo
			bits = uint(hi.BitLen())
		}
		op := map[token.Token]string{token.AND: "and", token.OR: "or", token.XOR: "xor"}[x.Op]
		return Val{Typ: rt, L: []T{e.c.bitop(op, bits, p, q)}}
	}
	e.fail("unsupported operator %s", x.Op)
	panic("unreachable")
}

// valEq: leafwise equality; untyped nil compares the first (reference/tag) leaf.
func (c *Ctx) valEq(a, b Val) T {
	if a.Typ == tUNil && b.Typ == tUNil {
		return "true"
	}
	if a.Typ == tUNil {
		a, b = b, a
	}
	if b.Typ == tUNil {
		return eq(a.L[0], "0")
	}
	if len(a.L) != len(b.L) {
		panic(specErr{fmt.Sprintf("comparison of %v with %v", a.Typ, b.Typ)})
	}
	var cs []T
	for i := range a.L {
		cs = append(cs, eq(a.L[i], b.L[i]))
	}
	if isString(a.Typ) {
		c.extensional(a.L[0], b.L[0])
	}
	return and(cs...)
}

func (e *Env) call(x *ast.CallExpr) Val {
	// generic-style builtins: all[T](x, body), typeis[T](v), as[T](v)
	if ix, ok := x.Fun.(*ast.IndexExpr); ok {
		if id, ok := ix.X.(*ast.Ident); ok {
			t := e.resolveType(ix.Index)
			switch id.Name {
			case "all", "any":
				v := x.Args[0].(*ast.Ident).Name
				ls := leavesOf(t)
				if len(ls) != 1 {
					e.fail("quantified variable must be scalar")
				}
				bv := "q." + smtSym(v) + "." + strconv.Itoa(e.c.nextID())
				body := e.bind(v, Val{Typ: t, L: []T{bv}}).evalBool(x.Args[1])
				fact := e.c.leafFact(ls[0], bv, "")
				if ls[0].Kind == lkStr || e.inAxiom {
					// the length range of every string is a global axiom; an `axiom`
					// clause is stated for all mathematical values (ghost counters are
					// unbounded integers)
					fact = "true"
				}
				if id.Name == "all" {
					// nested universal quantifiers become one (better triggers)
					if fact == "true" && strings.HasPrefix(body, "(forall ((") {
						return boolVal(fmt.Sprintf("(forall ((%s %s) %s", bv, ls[0].Sort, body[len("(forall ("):]))
					}
					return boolVal(fmt.Sprintf("(forall ((%s %s)) %s)", bv, ls[0].Sort, imp(fact, body)))
				}
				return boolVal(fmt.Sprintf("(exists ((%s %s)) %s)", bv, ls[0].Sort, and(fact, body)))
			case "typeis":
				v := e.eval(x.Args[0])
				return boolVal(eq(v.L[0], num(int64(e.c.P.typeID(t)))))
			case "as":
				v := e.eval(x.Args[0])
				return e.c.ifacePayload(e.st, v, t)
			case "zero":
				return zeroVal(t)
			}
		}
	}
	// conversions and builtins by identifier
	if id, ok := x.Fun.(*ast.Ident); ok {
		if _, shadow := e.vars[id.Name]; !shadow {
			if v, ok := e.builtin(id.Name, x); ok {
				return v
			}
			if g := e.c.P.CS.GStates[id.Name]; g != nil {
				k := e.eval(x.Args[0])
				key, srt, rt := e.c.gstateKey(g)
				_ = srt
				h := e.c.heapGet(e.st, key, srt)
				return Val{Typ: rt, L: []T{sel(sel(h, "1"), k.L[0])}}
			}
			if d := e.c.P.CS.Defs[e.pkgKey()+"."+id.Name]; d != nil {
				return e.expand(d, x.Args)
			}
			if d := e.c.P.CS.Defs["stubs."+id.Name]; d != nil {
				return e.expand(d, x.Args)
			}
			if u := e.c.P.CS.UFuns[e.pkgKey()+"."+id.Name]; u != nil {
				return e.ufun(u, x.Args)
			}
			if u := e.c.P.CS.UFuns["stubs."+id.Name]; u != nil {
				return e.ufun(u, x.Args)
			}
			// basic type conversion
			if bt := basicTypeByName(id.Name); bt != nil {
				v := e.eval(x.Args[0])
				return e.convert(v, bt)
			}
			if e.pkg != nil {
				if tn, ok := e.pkg.Scope().Lookup(id.Name).(*types.TypeName); ok {
					return e.convert(e.eval(x.Args[0]), tn.Type())
				}
			}
		}
	}
	if se, ok := x.Fun.(*ast.SelectorExpr); ok {
		if id, ok := se.X.(*ast.Ident); ok {
			if p := e.c.P.lookupPkgByName(e.pkg, id.Name); p != nil {
				if d := e.c.P.CS.Defs[pkgKeyOf(p.Path())+"."+se.Sel.Name]; d != nil {
					return e.expand(d, x.Args)
				}
				if u := e.c.P.CS.UFuns[pkgKeyOf(p.Path())+"."+se.Sel.Name]; u != nil {
					return e.ufun(u, x.Args)
				}
				if tn, ok := p.Scope().Lookup(se.Sel.Name).(*types.TypeName); ok {
					return e.convert(e.eval(x.Args[0]), tn.Type())
				}
			}
		}
	}
	e.fail("unknown spec function %s", exprString(x.Fun))
	panic("unreachable")
}

func (e *Env) pkgKey() string {
	if e.pkg == nil {
		return "stubs"
	}
	return pkgKeyOf(e.pkg.Path())
}

func basicTypeByName(n string) types.Type {
	switch n {
	case "int":
		return types.Typ[types.Int]
	case "int8":
		return types.Typ[types.Int8]
	case "int16":
		return types.Typ[types.Int16]
	case "int32":
		return types.Typ[types.Int32]
	case "int64":
		return types.Typ[types.Int64]
	case "uint":
		return types.Typ[types.Uint]
	case "uint8", "byte":
		return types.Typ[types.Uint8]
	case "uint16":
		return types.Typ[types.Uint16]
	case "uint32":
		return types.Typ[types.Uint32]
	case "uint64":
		return types.Typ[types.Uint64]
	case "string":
		return types.Typ[types.String]
	case "bool":
		return types.Typ[types.Bool]
	}
	return nil
}

func (e *Env) convert(v Val, t types.Type) Val {
	if isInteger(t) && len(v.L) == 1 {
		if lo, hi, ok := intRange(v.Typ); ok && v.Typ != tUInt {
			tlo, thi, _ := intRange(t)
			if lo.Cmp(tlo) >= 0 && hi.Cmp(thi) <= 0 {
				return Val{Typ: t, L: v.L}
			}
		}
		bt := t.Underlying().(*types.Basic)
		if bt.Kind() == types.Int || bt.Kind() == types.Int64 {
			// spec-level int(...) is the identity on mathematical integers
			return Val{Typ: t, L: v.L}
		}
		return Val{Typ: t, L: []T{wrapInt(t, v.L[0])}}
	}
	if isString(t) {
		if sl, ok := v.Typ.Underlying().(*types.Slice); ok {
			return Val{Typ: t, L: []T{e.c.strOfBytes(e.st, sl.Elem(), v)}}
		}
		if isString(v.Typ) {
			return Val{Typ: t, L: v.L}
		}
	}
	if types.Identical(v.Typ.Underlying(), t.Underlying()) {
		return Val{Typ: t, L: v.L}
	}
	e.fail("unsupported spec conversion %v -> %v", v.Typ, t)
	panic("unreachable")
}

func (e *Env) expand(d *SpecDef, args []ast.Expr) Val {
	if len(args) != len(d.Params) {
		e.fail("%s expects %d arguments", d.Name, len(d.Params))
	}
	n := *e
	n.vars = map[string]Val{}
	for i, a := range args {
		n.vars[d.Params[i]] = e.eval(a)
	}
	// definitions are evaluated in their own package context, without access
	// to the caller's locals
	n.fr = nil
	if p := e.c.P.Pkgs[d.Pkg]; p != nil {
		n.pkg = p.Pkg
	}
	n.at = e.at + " > " + d.Name
	e.c.depth++
	if e.c.depth > 40 {
		e.fail("definition expansion too deep (recursive definition?)")
	}
	defer func() { e.c.depth-- }()
	return n.eval(d.Body)
}

func (e *Env) resolveType(x ast.Expr) types.Type {
	switch x := x.(type) {
	case *ast.Ident:
		if t := basicTypeByName(x.Name); t != nil {
			return t
		}
		if x.Name == "error" {
			return types.Universe.Lookup("error").Type()
		}
		if e.pkg != nil {
			if tn, ok := e.pkg.Scope().Lookup(x.Name).(*types.TypeName); ok {
				return tn.Type()
			}
		}
	case *ast.SelectorExpr:
		if id, ok := x.X.(*ast.Ident); ok {
			if p := e.c.P.lookupPkgByName(e.pkg, id.Name); p != nil {
				if tn, ok := p.Scope().Lookup(x.Sel.Name).(*types.TypeName); ok {
					return tn.Type()
				}
			}
		}
	case *ast.StarExpr:
		return types.NewPointer(e.resolveType(x.X))
	case *ast.ArrayType:
		if x.Len == nil {
			return types.NewSlice(e.resolveType(x.Elt))
		}
	case *ast.ParenExpr:
		return e.resolveType(x.X)
	}
	e.fail("cannot resolve type %s", exprString(x))
	panic("unreachable")
}

func (e *Env) builtin(name string, x *ast.CallExpr) (Val, bool) {
	arg := func(i int) ast.Expr {
		if i >= len(x.Args) {
			e.fail("%s: missing argument %d", name, i)
		}
		return x.Args[i]
	}
	switch name {
	case "len":
		v := e.eval(arg(0))
		switch u := v.Typ.Underlying().(type) {
		case *types.Slice:
			return intVal(v.L[2]), true
		case *types.Basic:
			if isString(v.Typ) {
				return intVal(app("slen", v.one())), true
			}
		case *types.Array:
			return intVal(num(u.Len())), true
		case *types.Pointer:
			if a, ok := u.Elem().Underlying().(*types.Array); ok {
				return intVal(num(a.Len())), true
			}
		}
		e.fail("len of %v", v.Typ)
	case "cap":
		v := e.eval(arg(0))
		if _, ok := v.Typ.Underlying().(*types.Slice); ok {
			return intVal(v.L[3]), true
		}
		e.fail("cap of %v", v.Typ)
	case "old":
		if e.old == nil {
			e.fail("old() not available here")
		}
		n := *e
		n.st = e.old
		n.fr = nil
		return n.eval(arg(0)), true
	case "imp":
		return boolVal(imp(e.evalBool(arg(0)), e.evalBool(arg(1)))), true
	case "iff":
		return boolVal(eq(e.evalBool(arg(0)), e.evalBool(arg(1)))), true
	case "ite":
		c := e.evalBool(arg(0))
		a, b := e.eval(arg(1)), e.eval(arg(2))
		if len(a.L) != len(b.L) {
			e.fail("ite branches differ in shape")
		}
		out := Val{Typ: a.Typ, L: make([]T, len(a.L))}
		if a.Typ == tUInt || a.Typ == tUNil {
			out.Typ = b.Typ
		}
		for i := range a.L {
			out.L[i] = ite(c, a.L[i], b.L[i])
		}
		return out, true
	case "forall", "exists":
		v, ok := arg(0).(*ast.Ident)
		if !ok {
			e.fail("%s: first argument must be a variable name", name)
		}
		lo, hi := e.evalInt(arg(1)), e.evalInt(arg(2))
		bv := "q." + smtSym(v.Name) + "." + strconv.Itoa(e.c.nextID())
		body := e.bind(v.Name, Val{Typ: tInt, L: []T{bv}}).evalBool(arg(3))
		rng := and(le(lo, bv), lt(bv, hi))
		if name == "forall" {
			return boolVal(fmt.Sprintf("(forall ((%s Int)) %s)", bv, imp(rng, body))), true
		}
		return boolVal(fmt.Sprintf("(exists ((%s Int)) %s)", bv, and(rng, body))), true
	case "in":
		k, m := e.eval(arg(0)), e.eval(arg(1))
		mt, ok := m.Typ.Underlying().(*types.Map)
		if !ok {
			e.fail("in: second argument must be a map")
		}
		return boolVal(e.c.mapHas(e.st, mt, m.one(), k.one())), true
	case "fresh":
		v := e.eval(arg(0))
		if e.oldTop == "" {
			e.fail("fresh() not available here")
		}
		// allocated after the old state and before now
		if e.st != nil && e.st.top != "" {
			return boolVal(and(gt(v.L[0], e.oldTop), le(v.L[0], e.st.top))), true
		}
		return boolVal(gt(v.L[0], e.oldTop)), true
	case "loopold":
		if e.loopPre == nil {
			e.fail("loopold() outside a loop invariant")
		}
		n := *e
		n.st = e.loopPre
		return n.eval(arg(0)), true
	case "iterold":
		// value at the head of the current iteration of the enclosing loop
		if e.iterHead == nil {
			e.fail("iterold() outside a loop body call site")
		}
		n := *e
		n.st = e.iterHead
		return n.eval(arg(0)), true
	case "loopfresh":
		if e.loopPre == nil {
			e.fail("loopfresh() outside a loop invariant")
		}
		v := e.eval(arg(0))
		if e.st != nil && e.st.top != "" {
			return boolVal(and(gt(v.L[0], e.loopPre.top), le(v.L[0], e.st.top))), true
		}
		return boolVal(gt(v.L[0], e.loopPre.top)), true
	case "sameBacking":
		a, b := e.eval(arg(0)), e.eval(arg(1))
		return boolVal(eq(a.L[0], b.L[0])), true
	case "contains":
		// contains(s, t) on strings: only in lemmas decided over native strings
		if !e.c.sc.native {
			e.fail("contains() is available only in `nativestrings` lemmas")
		}
		a, b := e.eval(arg(0)), e.eval(arg(1))
		return boolVal(app("str.contains", a.L[0], b.L[0])), true
	case "refOf":
		// identity of the object behind a pointer or interface value (0 for nil)
		a := e.eval(arg(0))
		switch len(a.L) {
		case 1:
			return Val{Typ: tInt, L: []T{a.L[0]}}, true
		case 2:
			return Val{Typ: tInt, L: []T{a.L[1]}}, true
		}
		e.fail("refOf() wants a pointer or interface value")
	case "offset":
		// position of a slice's first element in its backing array
		a := e.eval(arg(0))
		if _, ok := a.Typ.Underlying().(*types.Slice); !ok {
			e.fail("offset() wants a slice")
		}
		return Val{Typ: tInt, L: []T{a.L[1]}}, true
	case "extends":
		// extends(a, b): a is b grown in place (same array, same start, same end of capacity, at least as long)
		a, b := e.eval(arg(0)), e.eval(arg(1))
		return boolVal(and(eq(a.L[0], b.L[0]), eq(a.L[1], b.L[1]), ge(a.L[2], b.L[2]), eq(a.L[3], b.L[3]))), true
	case "allocated":
		v := e.eval(arg(0))
		return boolVal(and(gt(v.L[0], "0"), le(v.L[0], e.st.top))), true
	case "unchanged":
		var cs []T
		for _, a := range x.Args {
			cur := e.eval(a)
			n := *e
			n.st = e.old
			n.fr = nil
			cs = append(cs, e.c.valEq(cur, n.eval(a)))
		}
		return boolVal(and(cs...)), true
	case "bit":
		v := e.eval(arg(0))
		i := e.evalInt(arg(1))
		bits := uint(8)
		if _, hi, ok := intRange(v.Typ); ok && v.Typ != tUInt {
			bits = uint(hi.BitLen())
		}
		return boolVal(e.c.bitOf(bits, v.one(), i)), true
	case "visited":
		if e.rng == nil {
			e.fail("visited() outside a map-range loop invariant")
		}
		k := e.eval(arg(0))
		return boolVal(sel(e.st.iters[*e.rng], k.one())), true
	case "sameslice":
		a, b := e.eval(arg(0)), e.eval(arg(1))
		return boolVal(e.c.valEq(a, b)), true
	case "bytesEq":
		// content equality of two byte slices
		a, b := e.eval(arg(0)), e.eval(arg(1))
		return boolVal(e.c.contentEq(e.st, a, e.st, b)), true
	case "contentUnchanged":
		a := e.eval(arg(0))
		n := *e
		n.st = e.old
		n.fr = nil
		b := n.eval(arg(0))
		return boolVal(e.c.contentEq(e.st, a, e.old, b)), true
	case "str":
		v := e.eval(arg(0))
		sl, ok := v.Typ.Underlying().(*types.Slice)
		if !ok {
			e.fail("str() wants a byte slice")
		}
		return Val{Typ: tStr, L: []T{e.c.strOfBytes(e.st, sl.Elem(), v)}}, true
	case "errIs":
		// errors.Is(e, t) as modelled by the intrinsic
		a, b := e.eval(arg(0)), e.eval(arg(1))
		same := and(eq(a.L[0], b.L[0]), eq(a.L[1], b.L[1]))
		return boolVal(ite(eq(a.L[0], "0"), eq(b.L[0], "0"), or(same, app("wraps", a.L[1], b.L[1])))), true
	case "isErr":
		v := e.eval(arg(0))
		return boolVal(not(eq(v.L[0], "0"))), true
	case "count":
		// ghost event counter
		id, ok := arg(0).(*ast.Ident)
		if !ok {
			e.fail("count() wants a counter name")
		}
		return intVal(e.c.ghostGet(e.st, id.Name)), true
	case "ctxval":
		cv := e.eval(arg(0))
		k := e.eval(arg(1))
		e.c.declCtx()
		return Val{Typ: types.NewInterfaceType(nil, nil), L: []T{app("ctx.tag", cv.L[1], k.one()), app("ctx.ref", cv.L[1], k.one())}}, true
	case "msum":
		m := e.eval(arg(0))
		mt, ok := m.Typ.Underlying().(*types.Map)
		if !ok || !e.c.msumApplies(mt) {
			e.fail("msum() wants a map[string]string")
		}
		return intVal(e.c.msumOf(e.st, mt, m.one())), true
	case "vsum":
		// partial byte sum over the keys visited so far by the enclosing map-range loop
		if e.rng == nil {
			e.fail("vsum() outside a map-range loop invariant")
		}
		m := e.eval(arg(0))
		mt := m.Typ.Underlying().(*types.Map)
		e.c.declMsum()
		v := sel(e.c.heapGet(e.st, mapValKey(mt, ""), arr(sInt, arr(sStr, sStr))), m.one())
		e.c.sc.assume(eq(app("msum", e.c.constArr(arr(sStr, sBool), "false"), v), "0"))
		return intVal(app("msum", e.st.iters[*e.rng], v)), true
	case "witness":
		// witness(i, lo, hi, P): some index in [lo,hi) satisfying P, or lo-1 when
		// there is none (skolem constant of a valid existential)
		v, ok := arg(0).(*ast.Ident)
		if !ok {
			e.fail("witness: first argument must be a variable name")
		}
		lo, hi := e.evalInt(arg(1)), e.evalInt(arg(2))
		ph := "q.WITNESS"
		body := e.bind(v.Name, Val{Typ: tInt, L: []T{ph}}).evalBool(arg(3))
		key := "witness:" + lo + "|" + hi + "|" + body
		if w, ok := e.c.witnesses[key]; ok {
			return intVal(w), true
		}
		w := e.c.sc.fresh("witness", sInt)
		e.c.witnesses[key] = w
		bv := "q.wi." + strconv.Itoa(e.c.nextID())
		none := fmt.Sprintf("(forall ((%s Int)) (=> (and (<= %s %s) (< %s %s)) (not %s)))", bv, lo, bv, bv, hi, strings.ReplaceAll(body, ph, bv))
		e.c.sc.assume(or(and(le(lo, w), lt(w, hi), strings.ReplaceAll(body, ph, w)), and(eq(w, sub(lo, "1")), none)))
		return intVal(w), true
	case "tsum", "tsumSplit", "tsumOne", "tsumSame":
		return e.tsumBuiltin(name, x), true
	case "chr":
		// the one-byte string
		x := e.evalInt(arg(0))
		e.c.sc.declareFun("str.chr", []string{sInt}, sStr)
		t := app("str.chr", x)
		if !strings.Contains(x, "q.") {
			e.c.onceFact("chr:"+t, and(eq(app("slen", t), "1"), eq(app("sbyte", t, "0"), x)))
		}
		return Val{Typ: tStr, L: []T{t}}, true
	case "slen":
		v := e.eval(arg(0))
		return intVal(app("slen", v.one())), true
	case "min":
		a, b := e.evalInt(arg(0)), e.evalInt(arg(1))
		return intVal(ite(le(a, b), a, b)), true
	case "max":
		a, b := e.evalInt(arg(0)), e.evalInt(arg(1))
		return intVal(ite(ge(a, b), a, b)), true
	case "pow256":
		a := e.evalInt(arg(0))
		return intVal(ite(eq(a, "0"), "1", ite(eq(a, "1"), "256", ite(eq(a, "2"), "65536", ite(eq(a, "3"), "16777216", "4294967296"))))), true
	}
	return Val{}, false
}

// ---- modifies designators ----

type ModLoc struct {
	Key     string
	Sort    string // full sort of the heap key
	Ref     T
	Idx     T // inner index for two-level keys ("" = whole inner array)
	HasIdx  bool
	Glob    bool
	Leaf    Leaf
	HasLeaf bool
	// reference set: every element of a slice of references (x[*][*])
	SetE, SetOff, SetLen T
	HasRange             bool // elements RLo <= index < RHi of the row Ref (absolute indices)
	RLo, RHi             T
	Everything           bool     // `modifies everything`: no frame at all
	Guard                T        // the location exists only if this holds ("" = always)
	Except               []string // with Everything: heap key prefixes that are NOT modified
}

// designator evaluates a frame designator. A location reached through a nil
// object does not exist: every ModLoc carries the guard "all dereferenced
// objects on the way are non-nil".
func (e *Env) designator(x ast.Expr) []ModLoc {
	if e.guard != nil {
		return e.designator0(x)
	}
	var gs []T
	n := *e
	n.guard = &gs
	locs := n.designator0(x)
	g := and(gs...)
	for i := range locs {
		if locs[i].Guard == "" {
			locs[i].Guard = g
		} else if g != "true" {
			locs[i].Guard = and(locs[i].Guard, g)
		}
	}
	return locs
}

func (e *Env) designator0(x ast.Expr) []ModLoc {
	if id, ok := x.(*ast.Ident); ok && id.Name == "everything" {
		return []ModLoc{{Key: "*", Everything: true}}
	}
	if ce, ok := x.(*ast.CallExpr); ok {
		if id, ok := ce.Fun.(*ast.Ident); ok && id.Name == "everythingExcept" {
			m := ModLoc{Key: "*", Everything: true}
			for _, a := range ce.Args {
				p, _ := strconv.Unquote(a.(*ast.BasicLit).Value)
				m.Except = append(m.Except, p)
			}
			return []ModLoc{m}
		}
	}
	switch x := x.(type) {
	case *ast.ParenExpr:
		return e.designator(x.X)
	case *ast.SelectorExpr:
		if id, ok := x.X.(*ast.Ident); ok {
			if _, bound := e.vars[id.Name]; !bound {
				if p := e.c.P.lookupPkgByName(e.pkg, id.Name); p != nil {
					// global variable
					sp := e.c.P.Prog.Package(p)
					if g, ok := sp.Members[x.Sel.Name].(*ssa.Global); ok {
						var out []ModLoc
						for _, l := range leavesOf(deref(g.Type())) {
							out = append(out, ModLoc{Key: globKey(g.String(), l.Suffix), Sort: l.Sort, Glob: true})
						}
						return out
					}
				}
			}
		}
		base := e.eval(x.X)
		st := deref(base.Typ)
		ref := base.one()
		if x.Sel.Name == "ALLFIELDS" {
			return e.c.structLocs(st, ref)
		}
		obj, index, _ := types.LookupFieldOrMethod(base.Typ, true, e.pkgOfType(base.Typ), x.Sel.Name)
		if _, ok := obj.(*types.Var); !ok {
			e.fail("no field %s in %v", x.Sel.Name, base.Typ)
		}
		cur := base
		for _, i := range index[:len(index)-1] {
			if e.guard != nil {
				if _, isPtr := cur.Typ.Underlying().(*types.Pointer); isPtr {
					*e.guard = append(*e.guard, not(eq(cur.one(), "0")))
				}
			}
			cur = e.c.selectField(e.st, cur, i)
		}
		st = deref(cur.Typ)
		ref = cur.one()
		if e.guard != nil {
			if _, isPtr := cur.Typ.Underlying().(*types.Pointer); isPtr {
				*e.guard = append(*e.guard, not(eq(ref, "0")))
			}
		}
		f := st.Underlying().(*types.Struct).Field(index[len(index)-1])
		return e.c.fieldLocs(st, f, ref)
	case *ast.StarExpr:
		p := e.eval(x.X)
		t := deref(p.Typ)
		if isStructType(t) {
			return e.c.structLocs(t, p.one())
		}
		var out []ModLoc
		for _, l := range leavesOf(t) {
			out = append(out, ModLoc{Key: boxKey(t, l.Suffix), Sort: arr(sInt, l.Sort), Ref: p.one(), Leaf: l, HasLeaf: true})
		}
		return out
	case *ast.SliceExpr:
		// x[lo:hi]: the elements lo..hi-1 of the slice x, counted from its offset;
		// hi may exceed len(x) (spare capacity written by append)
		base := e.eval(x.X)
		u, ok := base.Typ.Underlying().(*types.Slice)
		if !ok || isStructType(u.Elem()) {
			e.fail("x[lo:hi] designator wants a slice of scalars")
		}
		ne := *e
		ne.guard = nil
		lo, hi := T("0"), base.L[3]
		if x.Low != nil {
			lo = ne.evalInt(x.Low)
		}
		if x.High != nil {
			hi = ne.evalInt(x.High)
		}
		var out []ModLoc
		for _, l := range leavesOf(u.Elem()) {
			out = append(out, ModLoc{Key: elemKey(u.Elem(), l.Suffix), Sort: arr(sInt, arr(sInt, l.Sort)), Ref: base.L[0], Leaf: l, HasLeaf: true,
				HasRange: true, RLo: add(base.L[1], lo), RHi: add(base.L[1], hi)})
		}
		return out
	case *ast.IndexExpr:
		all := false
		if id, ok := x.Index.(*ast.Ident); ok && id.Name == "ALL" {
			all = true
		}
		if id, ok := x.X.(*ast.Ident); ok {
			if g := e.c.P.CS.GStates[id.Name]; g != nil {
				key, srt, _ := e.c.gstateKey(g)
				m := ModLoc{Key: key, Sort: srt, Ref: "1"}
				if !all {
					ne := *e
					ne.guard = nil
					m.HasIdx, m.Idx = true, ne.eval(x.Index).L[0]
				}
				return []ModLoc{m}
			}
		}
		// x[*][*]: contents of every map held in the slice x
		if inner, ok := x.X.(*ast.IndexExpr); ok && all {
			if id, ok := inner.Index.(*ast.Ident); ok && id.Name == "ALL" {
				sv := e.eval(inner.X)
				sl, ok := sv.Typ.Underlying().(*types.Slice)
				if !ok {
					e.fail("x[*][*] wants a slice of maps")
				}
				mt, ok := sl.Elem().Underlying().(*types.Map)
				if !ok {
					e.fail("x[*][*] wants a slice of maps")
				}
				E := e.c.sc.def("setE", arr(sInt, sInt), e.c.elemArray(e.st, sl.Elem(), 0, sv.L[0]))
				ks := keySortOfMap(mt)
				out := []ModLoc{{Key: mapDomKey(mt), Sort: arr(sInt, arr(ks, sBool)), SetE: E, SetOff: sv.L[1], SetLen: sv.L[2]}}
				for _, l := range leavesOf(mt.Elem()) {
					out = append(out, ModLoc{Key: mapValKey(mt, l.Suffix), Sort: arr(sInt, arr(ks, l.Sort)), SetE: E, SetOff: sv.L[1], SetLen: sv.L[2], Leaf: l, HasLeaf: true})
				}
				return out
			}
		}
		base := e.eval(x.X)
		switch u := base.Typ.Underlying().(type) {
		case *types.Slice:
			if isStructType(u.Elem()) {
				e.fail("modifies on elements of a slice of structs is not supported")
			}
			var out []ModLoc
			for _, l := range leavesOf(u.Elem()) {
				m := ModLoc{Key: elemKey(u.Elem(), l.Suffix), Sort: arr(sInt, arr(sInt, l.Sort)), Ref: base.L[0], Leaf: l, HasLeaf: true}
				if !all {
					ne := *e
					ne.guard = nil
					m.HasIdx, m.Idx = true, slIdx(base.L[1], ne.evalInt(x.Index))
				}
				out = append(out, m)
			}
			return out
		case *types.Map:
			ks := keySortOfMap(u)
			out := []ModLoc{{Key: mapDomKey(u), Sort: arr(sInt, arr(ks, sBool)), Ref: base.one()}}
			for _, l := range leavesOf(u.Elem()) {
				out = append(out, ModLoc{Key: mapValKey(u, l.Suffix), Sort: arr(sInt, arr(ks, l.Sort)), Ref: base.one(), Leaf: l, HasLeaf: true})
			}
			if !all {
				ne := *e
				ne.guard = nil
				k := ne.eval(x.Index).one()
				for i := range out {
					out[i].HasIdx, out[i].Idx = true, k
				}
			}
			return out
		case *types.Pointer:
			if a, ok := u.Elem().Underlying().(*types.Array); ok {
				var out []ModLoc
				for _, l := range leavesOf(a.Elem()) {
					m := ModLoc{Key: elemKey(a.Elem(), l.Suffix), Sort: arr(sInt, arr(sInt, l.Sort)), Ref: base.one(), Leaf: l, HasLeaf: true}
					if !all {
						m.HasIdx, m.Idx = true, e.evalInt(x.Index)
					}
					out = append(out, m)
				}
				return out
			}
		}
		e.fail("bad designator %s", exprString(x))
	case *ast.CallExpr:
		// elems(x), ghost counters: count(name)
		if id, ok := x.Fun.(*ast.Ident); ok && id.Name == "count" {
			return []ModLoc{{Key: "ghost:" + x.Args[0].(*ast.Ident).Name, Glob: true, Sort: sInt}}
		}
		// named designator lists
		var ms *ModSet
		var mpkg string
		if id, ok := x.Fun.(*ast.Ident); ok {
			ms = e.c.P.CS.ModSets[e.pkgKey()+"."+id.Name]
		} else if se, ok := x.Fun.(*ast.SelectorExpr); ok {
			if id, ok := se.X.(*ast.Ident); ok {
				if p := e.c.P.lookupPkgByName(e.pkg, id.Name); p != nil {
					ms = e.c.P.CS.ModSets[pkgKeyOf(p.Path())+"."+se.Sel.Name]
				}
			}
		}
		if ms != nil {
			mpkg = ms.Pkg
			if len(x.Args) != len(ms.Params) {
				e.fail("modset %s expects %d arguments", ms.Name, len(ms.Params))
			}
			n := *e
			n.vars = map[string]Val{}
			// guards of the argument expressions apply to every location of the set;
			// each designator of the set gets its own guard on top
			var argGuards []T
			ae := *e
			ae.guard = &argGuards
			for i, a := range x.Args {
				n.vars[ms.Params[i]] = ae.eval(a)
			}
			n.fr = nil
			n.params = nil
			n.guard = nil
			if p := e.c.P.Pkgs[mpkg]; p != nil {
				n.pkg = p.Pkg
			}
			var out []ModLoc
			for _, d := range ms.Exprs {
				for _, l := range n.designator(d) {
					if len(argGuards) > 0 {
						if l.Guard == "" {
							l.Guard = and(argGuards...)
						} else {
							l.Guard = and(l.Guard, and(argGuards...))
						}
					}
					out = append(out, l)
				}
			}
			return out
		}
	}
	e.fail("bad designator %s", exprString(x))
	panic("unreachable")
}

func (c *Ctx) structLocs(st types.Type, ref T) []ModLoc {
	s := st.Underlying().(*types.Struct)
	var out []ModLoc
	for i := 0; i < s.NumFields(); i++ {
		out = append(out, c.fieldLocs(st, s.Field(i), ref)...)
	}
	return out
}

func (c *Ctx) fieldLocs(st types.Type, f *types.Var, ref T) []ModLoc {
	if isStructType(f.Type()) {
		return c.structLocs(f.Type(), c.nestRef(st, f.Name(), ref))
	}
	var out []ModLoc
	for _, l := range leavesOf(f.Type()) {
		out = append(out, ModLoc{Key: fieldKey(st, f.Name(), l.Suffix), Sort: arr(sInt, l.Sort), Ref: ref, Leaf: l, HasLeaf: true})
	}
	return out
}

func innerSort(s string) (string, string) {
	// "(Array K V)" -> K, V
	s = strings.TrimSuffix(strings.TrimPrefix(s, "(Array "), ")")
	if strings.HasPrefix(s, "(") {
		j := matchClose(s, 0)
		return s[:j+1], strings.TrimSpace(s[j+1:])
	}
	i := strings.Index(s, " ")
	return s[:i], strings.TrimSpace(s[i+1:])
}

// ---- sum over a slice of string maps (cache accounting) ----
//
// tsum(s, lo, hi) = sum over i in [lo,hi) of msum(s[i]) in the current state.
// The lemma builtins return *valid instances* of the sum library (definition
// unfolding, range split, congruence between two states); a `use` clause whose
// head is one of them is assumed, not proved (trusted lemma library).

var lemmaBuiltins = map[string]bool{"tsumSplit": true, "tsumOne": true, "tsumSame": true}

func (e *Env) tsumParts(st *State, sv Val) (E, D, V T, mt *types.Map) {
	sl, ok := sv.Typ.Underlying().(*types.Slice)
	if !ok {
		e.fail("tsum wants a slice of maps")
	}
	mt, ok = sl.Elem().Underlying().(*types.Map)
	if !ok || !e.c.msumApplies(mt) {
		e.fail("tsum wants a []map[string]string")
	}
	c := e.c
	c.declMsum()
	c.sc.declareFun("tsum", []string{arr(sInt, sInt), arr(sInt, arr(sStr, sBool)), arr(sInt, arr(sStr, sStr)), sInt, sInt}, sInt)
	E = c.elemArray(st, sl.Elem(), 0, sv.L[0])
	D = c.heapGet(st, mapDomKey(mt), arr(sInt, arr(sStr, sBool)))
	V = c.heapGet(st, mapValKey(mt, ""), arr(sInt, arr(sStr, sStr)))
	return
}

func (e *Env) tsumBuiltin(name string, x *ast.CallExpr) Val {
	c := e.c
	sv := e.eval(x.Args[0])
	E, D, V, _ := e.tsumParts(e.st, sv)
	off := sv.L[1]
	abs := func(i T) T { return slIdx(off, i) }
	ts := func(E, D, V, lo, hi T) T { return app("tsum", E, D, V, lo, hi) }
	switch name {
	case "tsum":
		lo, hi := e.evalInt(x.Args[1]), e.evalInt(x.Args[2])
		t := ts(E, D, V, abs(lo), abs(hi))
		c.sc.assume(imp(le(lo, hi), ge(t, "0")))
		return intVal(t)
	case "tsumSplit":
		lo, m, hi := e.evalInt(x.Args[1]), e.evalInt(x.Args[2]), e.evalInt(x.Args[3])
		c.trust("sum lemma library: tsum(lo,hi) = tsum(lo,m) + tsum(m,hi); tsum(i,i+1) = msum(s[i]); tsum(i,i) = 0; congruence over unchanged scopes")
		return boolVal(imp(and(le(lo, m), le(m, hi)), and(eq(ts(E, D, V, abs(lo), abs(hi)), add(ts(E, D, V, abs(lo), abs(m)), ts(E, D, V, abs(m), abs(hi)))),
			ge(ts(E, D, V, abs(lo), abs(m)), "0"), ge(ts(E, D, V, abs(m), abs(hi)), "0"))))
	case "tsumOne":
		i := e.evalInt(x.Args[1])
		c.trust("sum lemma library: tsum(lo,hi) = tsum(lo,m) + tsum(m,hi); tsum(i,i+1) = msum(s[i]); tsum(i,i) = 0; congruence over unchanged scopes")
		r := sel(E, abs(i))
		return boolVal(and(eq(ts(E, D, V, abs(i), abs(add(i, "1"))), app("msum", sel(D, r), sel(V, r))), eq(ts(E, D, V, abs(i), abs(i)), "0")))
	case "tsumSame":
		// relates old(s) in the old state with s in the current state on [lo,hi)
		if e.old == nil {
			e.fail("tsumSame needs an old state")
		}
		lo, hi := e.evalInt(x.Args[1]), e.evalInt(x.Args[2])
		n := *e
		n.st = e.old
		n.fr = nil
		osv := n.eval(x.Args[0])
		oE, oD, oV, _ := e.tsumParts(e.old, osv)
		ooff := osv.L[1]
		c.trust("sum lemma library: tsum(lo,hi) = tsum(lo,m) + tsum(m,hi); tsum(i,i+1) = msum(s[i]); tsum(i,i) = 0; congruence over unchanged scopes")
		j := fmt.Sprintf("q.ts.%d", c.nextID())
		r := sel(E, slIdx(off, j))
		prem := fmt.Sprintf("(forall ((%s Int)) (=> (and (<= %s %s) (< %s %s)) %s))", j, lo, j, j, hi,
			and(eq(r, sel(oE, slIdx(ooff, j))), eq(sel(D, r), sel(oD, r)), eq(sel(V, r), sel(oV, r))))
		return boolVal(imp(prem, eq(ts(E, D, V, abs(lo), abs(hi)), ts(oE, oD, oV, slIdx(ooff, lo), slIdx(ooff, hi)))))
	}
	panic("tsumBuiltin")
}

// isLemmaUse: a `use` clause that only instantiates the trusted lemma library.
func isLemmaUse(x ast.Expr) bool {
	switch x := x.(type) {
	case *ast.ParenExpr:
		return isLemmaUse(x.X)
	case *ast.BinaryExpr:
		return x.Op == token.LAND && isLemmaUse(x.X) && isLemmaUse(x.Y)
	case *ast.CallExpr:
		if id, ok := x.Fun.(*ast.Ident); ok {
			if lemmaBuiltins[id.Name] {
				return true
			}
			if id.Name == "old" && len(x.Args) == 1 {
				return isLemmaUse(x.Args[0])
			}
		}
	}
	return false
}

// ufun: application of an uninterpreted specification function. Its axioms
// (`axiom` clauses of the same package) are assumed on first use.
func (e *Env) ufun(u *UFun, args []ast.Expr) Val {
	c := e.c
	name := "uf." + smtSym(u.Pkg+"."+u.Name)
	sortOf := func(t string) (string, types.Type) {
		switch t {
		case "string":
			return sStr, tStr
		case "bool":
			return sBool, tBool
		}
		return sInt, tInt
	}
	var sorts []string
	for _, p := range u.Params {
		so, _ := sortOf(p)
		sorts = append(sorts, so)
	}
	rs, rt := sortOf(u.Result)
	c.sc.declareFun(name, sorts, rs)
	if len(args) != len(u.Params) {
		e.fail("%s expects %d arguments", u.Name, len(u.Params))
	}
	var ts []T
	for _, a := range args {
		v := e.eval(a)
		ts = append(ts, v.L[0])
	}
	if !c.factsDone["axioms"] {
		c.factsDone["axioms"] = true
		own := ""
		if c.topFrame != nil && c.topFrame.pkg != nil {
			own = pkgKeyOf(c.topFrame.pkg.Path())
		}
		for _, ax := range c.P.CS.Axioms {
			if ax.Pkg != "stubs" && ax.Pkg != own && ax.Pkg != u.Pkg {
				continue
			}
			ae := &Env{c: c, vars: map[string]Val{}, st: e.st, at: fmt.Sprintf("%s:%d", ax.File, ax.Line), inAxiom: true}
			if p := c.P.Pkgs[ax.Pkg]; p != nil {
				ae.pkg = p.Pkg
			}
			c.trust("axiom (" + ax.Pkg + "): " + ax.Text)
			c.sc.assumeG(ae.evalBool(ax.Expr))
		}
	}
	return Val{Typ: rt, L: []T{app(name, ts...)}}
}

func specSort(t string) (string, types.Type) {
	switch t {
	case "string":
		return sStr, tStr
	case "bool":
		return sBool, tBool
	}
	return sInt, tInt
}

// gstateKey: ghost state functions live in the heap as a two-level array at the
// fixed pseudo-object 1 (so that havoc and frame machinery apply unchanged).
func (c *Ctx) gstateKey(g *GState) (string, string, types.Type) {
	ps, _ := specSort(g.Param)
	rs, rt := specSort(g.Result)
	return "gs:" + g.Name, arr(sInt, arr(ps, rs)), rt
}
