package main

// Contract files: comment-only Go files (`//go:build verif`) whose `//@` lines
// carry Gobra-style clauses keyed by function name and loop ordinal.

import (
	"fmt"
	"go/ast"
	"go/parser"
	"go/token"
	"os"
	"regexp"
	"strconv"
	"strings"
)

type Clause struct {
	Kind    string   // requires ensures modifies invariant use lmodifies
	Tags    []string // property ids; empty = base
	Label   string
	Text    string
	Expr    ast.Expr   // parsed (requires/ensures/invariant)
	Exprs   []ast.Expr // modifies: list of designators
	Loop    int        // loop ordinal (1-based) for invariant/lmodifies
	Ord     int        // ordinal among clauses of the same kind
	Assumed bool       // postulate: a postcondition that is used by callers but not checked against the body
	File    string
	Line    int
}

type Contract struct {
	Key      string // "pkg.Func" or "pkg.(*T).M" or "pkg.(T).M"
	Pkg      string
	Requires []*Clause
	Premises []*Clause // stated premises of a property: assumed by the function and at its call sites
	Ensures  []*Clause
	Modifies []*Clause
	Invs     []*Clause // loop invariants
	LMods    []*Clause // loop modifies
	Uses     []*Clause
	Assumed  bool     // contract of code outside the verified set (trusted)
	Inline   bool     // force inlining at call sites even though a contract exists
	Safety   []string // property tags for automatic no-panic obligations
	NoSafety bool
	Native   bool      // lemma over strings and integers only: queries use the solvers' native string theory
	Serves   []string  // properties that claim this function's base clauses
	Steps    []*Clause // loop N step: per-iteration obligations (iterold = head of the iteration)
	Sites    []*Clause // call-site assertions: Label=callee key pattern
	Params   []string  // explicit formal names (for interface methods / externs)
	Pure     bool
	GhostSets []*Clause // ghostset G(key) = value: specification-only assignment to ghost state at every return
	File     string
	Line     int
}

type SpecDef struct {
	Name   string
	Pkg    string
	Params []string
	Body   ast.Expr
	Text   string
	IsPred bool
}

type Devirt struct {
	Iface    string // "cache.Memory"
	Concrete string // "*cache.Cache"
}

type UFun struct {
	Name   string
	Pkg    string
	Params []string // type names
	Result string
}

// FieldWriters: the complete list of functions of the module that may store to a
// struct field (module-wide frame audit for exported representation fields).
type FieldWriters struct {
	Pkg     string
	Type    string
	Field   string
	Allowed []string
	Tags    []string
	File    string
	Line    int
}

// Pin: a package-level string whose initial value an assumed meaning depends on
// (regular expressions: the axioms about them are about these texts).
type Pin struct {
	Pkg   string
	Name  string
	Value string
	Tags  []string
	File  string
	Line  int
}

type Axiom struct {
	Pkg  string
	Text string
	Expr ast.Expr
	File string
	Line int
}

type ModSet struct {
	Name   string
	Pkg    string
	Params []string
	Exprs  []ast.Expr
}

// GState: ghost state function (a specification-only map, e.g. the file
// system): read as name(key), framed as name[key] / name[*].
type GState struct {
	Name, Pkg     string
	Param, Result string // "string" | "int" | "bool"
}

type ContractSet struct {
	GStates        map[string]*GState
	ModSets        map[string]*ModSet
	UFuns          map[string]*UFun
	Axioms         []*Axiom
	Funcs          map[string]*Contract
	ZeroFacts      map[string][]*Axiom // type string -> facts about a freshly allocated zero value `x`
	Pins           []*Pin
	Writers        []*FieldWriters
	Defs           map[string]*SpecDef // key pkg.name
	Devirts        []Devirt
	NoEffectIfaces map[string]bool
	Files          []string
}

var clauseRe = regexp.MustCompile(`^(premise|postulate|requires|ensures|modifies|loop|use|func|extern|iface|pred|ghost|devirt|noeffect|assumed|inline|safety|nosafety|params|pure|nativestrings|pin|fieldwriters|zerovalue|ufun|axiom|serves|modset|callsite|gstate|ghostset)\b`)

func newContractSet() *ContractSet {
	return &ContractSet{Funcs: map[string]*Contract{}, Defs: map[string]*SpecDef{}, NoEffectIfaces: map[string]bool{}, UFuns: map[string]*UFun{}, ModSets: map[string]*ModSet{}, GStates: map[string]*GState{}}
}

// loadContractFile parses one file. pkgName is the Go package short name that
// unqualified function keys are relative to.
func (cs *ContractSet) loadFileAs(path string, pkgKey string) error {
	data, err := os.ReadFile(path)
	if err != nil {
		return err
	}
	cs.Files = append(cs.Files, path)
	pkgName := pkgKey
	lines := strings.Split(string(data), "\n")
	type raw struct {
		text string
		line int
	}
	var stmts []raw
	for i, l := range lines {
		t := strings.TrimSpace(l)
		if !strings.HasPrefix(t, "//@") {
			continue
		}
		body := strings.TrimSpace(strings.TrimPrefix(t, "//@"))
		if body == "" {
			continue
		}
		if ci := strings.Index(body, " //"); ci >= 0 {
			body = strings.TrimSpace(body[:ci])
		}
		if clauseRe.MatchString(body) {
			stmts = append(stmts, raw{body, i + 1})
		} else if len(stmts) > 0 {
			stmts[len(stmts)-1].text += " " + body
		} else {
			return fmt.Errorf("%s:%d: continuation without clause", path, i+1)
		}
	}
	var cur *Contract
	for _, s := range stmts {
		kw := clauseRe.FindString(s.text)
		rest := strings.TrimSpace(s.text[len(kw):])
		fail := func(e error) error { return fmt.Errorf("%s:%d: %v (in %q)", path, s.line, e, s.text) }
		switch kw {
		case "func", "extern", "iface":
			key := rest
			if sp := strings.IndexAny(key, " \t"); sp >= 0 {
				key = key[:sp]
			}
			key = qualify(pkgName, key)
			if _, dup := cs.Funcs[key]; dup {
				return fail(fmt.Errorf("duplicate contract for %s", key))
			}
			cur = &Contract{Key: key, Pkg: pkgName, File: path, Line: s.line, Assumed: kw != "func"}
			cs.Funcs[key] = cur
		case "pred", "ghost":
			d, err := parseDef(rest, pkgName, kw == "pred")
			if err != nil {
				return fail(err)
			}
			cs.Defs[pkgName+"."+d.Name] = d
		case "modset":
			// modset name(p1, p2) = designator, designator, ...
			eqi := strings.Index(rest, "=")
			if eqi < 0 {
				return fail(fmt.Errorf("modset wants: name(params) = designators"))
			}
			head := strings.TrimSpace(rest[:eqi])
			lp := strings.Index(head, "(")
			if lp < 0 || !strings.HasSuffix(head, ")") {
				return fail(fmt.Errorf("bad modset head"))
			}
			ms := &ModSet{Name: strings.TrimSpace(head[:lp]), Pkg: pkgName}
			for _, p := range strings.Split(head[lp+1:len(head)-1], ",") {
				if p = strings.TrimSpace(p); p != "" {
					ms.Params = append(ms.Params, p)
				}
			}
			es, err := parseDesignators(strings.TrimSpace(rest[eqi+1:]))
			if err != nil {
				return fail(err)
			}
			ms.Exprs = es
			cs.ModSets[pkgName+"."+ms.Name] = ms
			cur = nil
		case "gstate":
			// gstate name(keytype) resulttype
			lp, rp := strings.Index(rest, "("), strings.LastIndex(rest, ")")
			if lp < 0 || rp < lp {
				return fail(fmt.Errorf("gstate wants: name(keytype) resulttype"))
			}
			pf := strings.Fields(rest[lp+1 : rp])
			g := &GState{Name: strings.TrimSpace(rest[:lp]), Pkg: pkgName, Param: pf[len(pf)-1], Result: strings.TrimSpace(rest[rp+1:])}
			cs.GStates[g.Name] = g
			cur = nil
		case "ufun":
			// ufun name(t1, t2) result   -- uninterpreted specification function
			lp, rp := strings.Index(rest, "("), strings.LastIndex(rest, ")")
			if lp < 0 || rp < lp {
				return fail(fmt.Errorf("ufun wants: name(types) result"))
			}
			u := &UFun{Name: strings.TrimSpace(rest[:lp]), Pkg: pkgName, Result: strings.TrimSpace(rest[rp+1:])}
			for _, p := range strings.Split(rest[lp+1:rp], ",") {
				if p = strings.TrimSpace(p); p != "" {
					f := strings.Fields(p)
					u.Params = append(u.Params, f[len(f)-1])
				}
			}
			cs.UFuns[pkgName+"."+u.Name] = u
			cur = nil
		case "fieldwriters":
			// fieldwriters[TAGS] Type.field = fn, fn, ...   (function keys as in `func` clauses; prefix* allowed)
			fw := &FieldWriters{Pkg: pkgName, File: path, Line: s.line}
			r := rest
			if m := tagRe.FindStringSubmatch(r); m != nil {
				for _, t := range strings.Split(m[1], ",") {
					fw.Tags = append(fw.Tags, strings.TrimSpace(t))
				}
				r = strings.TrimSpace(r[len(m[0]):])
			}
			eqi := strings.Index(r, "=")
			if eqi < 0 {
				return fail(fmt.Errorf("fieldwriters wants: Type.field = functions"))
			}
			tf := strings.Split(strings.TrimSpace(r[:eqi]), ".")
			if len(tf) != 2 {
				return fail(fmt.Errorf("fieldwriters wants Type.field"))
			}
			fw.Type, fw.Field = tf[0], tf[1]
			for _, a := range strings.Split(r[eqi+1:], ",") {
				if a = strings.TrimSpace(a); a != "" {
					fw.Allowed = append(fw.Allowed, qualify(pkgName, a))
				}
			}
			cs.Writers = append(cs.Writers, fw)
			cur = nil
		case "pin":
			// pin[TAGS] name = "go string literal"
			pn := &Pin{Pkg: pkgName, File: path, Line: s.line}
			r := rest
			if m := tagRe.FindStringSubmatch(r); m != nil {
				for _, t := range strings.Split(m[1], ",") {
					pn.Tags = append(pn.Tags, strings.TrimSpace(t))
				}
				r = strings.TrimSpace(r[len(m[0]):])
			}
			eqi := strings.Index(r, "=")
			if eqi < 0 {
				return fail(fmt.Errorf("pin wants: name = \"literal\""))
			}
			pn.Name = strings.TrimSpace(r[:eqi])
			v, err := strconv.Unquote(strings.TrimSpace(r[eqi+1:]))
			if err != nil {
				return fail(fmt.Errorf("pin value: %v", err))
			}
			pn.Value = v
			cs.Pins = append(cs.Pins, pn)
			cur = nil
		case "zerovalue":
			// zerovalue <type> <expr over x>: ghost state of a freshly allocated zero value
			sp := strings.IndexAny(rest, " \t")
			if sp < 0 {
				return fail(fmt.Errorf("zerovalue wants: type expr"))
			}
			e, err := parseSpecExpr(strings.TrimSpace(rest[sp:]))
			if err != nil {
				return fail(err)
			}
			if cs.ZeroFacts == nil {
				cs.ZeroFacts = map[string][]*Axiom{}
			}
			tn := rest[:sp]
			cs.ZeroFacts[tn] = append(cs.ZeroFacts[tn], &Axiom{Pkg: pkgName, Text: rest, Expr: e, File: path, Line: s.line})
			cur = nil
		case "axiom":
			e, err := parseSpecExpr(rest)
			if err != nil {
				return fail(err)
			}
			cs.Axioms = append(cs.Axioms, &Axiom{Pkg: pkgName, Text: rest, Expr: e, File: path, Line: s.line})
			cur = nil
		case "devirt":
			f := strings.Fields(rest)
			if len(f) != 2 {
				return fail(fmt.Errorf("devirt wants: iface concrete"))
			}
			cs.Devirts = append(cs.Devirts, Devirt{f[0], f[1]})
		case "noeffect":
			cs.NoEffectIfaces[strings.TrimSpace(rest)] = true
		default:
			if cur == nil {
				return fail(fmt.Errorf("clause outside func"))
			}
			if err := cur.addClause(kw, rest, path, s.line); err != nil {
				return fail(err)
			}
		}
	}
	return nil
}

func qualify(pkg, key string) string {
	// forms: Name | (*T).M | (T).M | pkg.Name | (*pkg.T).M | (pkg.I).M
	if strings.HasPrefix(key, "(") {
		end := strings.Index(key, ")")
		recv := key[1:end]
		star := ""
		if strings.HasPrefix(recv, "*") {
			star = "*"
			recv = recv[1:]
		}
		if !strings.Contains(recv, ".") {
			recv = pkg + "." + recv
		}
		return "(" + star + recv + ")" + key[end+1:]
	}
	if !strings.Contains(key, ".") {
		return pkg + "." + key
	}
	return key
}

var tagRe = regexp.MustCompile(`^\[([A-Za-z0-9_, ]+)\]`)
var labelRe = regexp.MustCompile(`^@([A-Za-z0-9_\-]+)\s+`)

func (ct *Contract) addClause(kw, rest, file string, line int) error {
	cl := &Clause{Kind: kw, File: file, Line: line}
	if m := tagRe.FindStringSubmatch(rest); m != nil {
		for _, t := range strings.Split(m[1], ",") {
			cl.Tags = append(cl.Tags, strings.TrimSpace(t))
		}
		rest = strings.TrimSpace(rest[len(m[0]):])
	}
	switch kw {
	case "assumed":
		ct.Assumed = true
		return nil
	case "inline":
		ct.Inline = true
		return nil
	case "pure":
		ct.Pure = true
		return nil
	case "nosafety":
		ct.NoSafety = true
		return nil
	case "nativestrings":
		ct.Native = true
		return nil
	case "safety":
		ct.Safety = cl.Tags
		return nil
	case "callsite":
		// callsite <calleeKey|*> assert[TAGS] @label expr
		f := strings.Fields(rest)
		if len(f) < 3 || !(strings.HasPrefix(f[1], "assert") || strings.HasPrefix(f[1], "assume")) {
			return fmt.Errorf("callsite wants: callsite <callee> assert[tags] @label expr")
		}
		cl.Kind = "callsite"
		callee := f[0]
		body := strings.TrimSpace(rest[len(f[0]):])
		if strings.HasPrefix(body, "assume") {
			// callsite <callee> assume ...: a premise stated where it is needed (listed as trusted)
			cl.Assumed = true
			body = strings.TrimSpace(strings.TrimPrefix(body, "assume"))
		}
		body = strings.TrimSpace(strings.TrimPrefix(body, "assert"))
		if m := tagRe.FindStringSubmatch(body); m != nil {
			for _, t := range strings.Split(m[1], ",") {
				cl.Tags = append(cl.Tags, strings.TrimSpace(t))
			}
			body = strings.TrimSpace(body[len(m[0]):])
		}
		if m := labelRe.FindStringSubmatch(body); m != nil {
			cl.Label = m[1]
			body = body[len(m[0]):]
		}
		e, err := parseSpecExpr(body)
		if err != nil {
			return err
		}
		cl.Text, cl.Expr = body, e
		if callee != "*" {
			callee = qualify(ct.Pkg, callee)
		}
		// a trailing * is a prefix pattern
		cl.File = callee // callee pattern
		cl.Ord = len(ct.Sites)
		cl.Line = line
		ct.Sites = append(ct.Sites, cl)
		return nil
	case "ghostset":
		// ghostset G(key) = value: a specification-only assignment to ghost state, performed at
		// every return of a verified function (ghost state has no run-time meaning, so this is a
		// ghost statement placed at the function's exits). Exprs = [G(key), value].
		eq := strings.Index(rest, " = ")
		if eq < 0 {
			return fmt.Errorf("ghostset wants: ghostset G(key) = value")
		}
		lhs, err := parseSpecExpr(strings.TrimSpace(rest[:eq]))
		if err != nil {
			return err
		}
		rhs, err := parseSpecExpr(strings.TrimSpace(rest[eq+3:]))
		if err != nil {
			return err
		}
		cl.Kind = "ghostset"
		cl.Text, cl.Exprs = rest, []ast.Expr{lhs, rhs}
		ct.GhostSets = append(ct.GhostSets, cl)
		return nil
	case "serves":
		for _, p := range strings.Split(rest, ",") {
			if p = strings.TrimSpace(p); p != "" {
				ct.Serves = append(ct.Serves, p)
			}
		}
		return nil
	case "params":
		for _, p := range strings.Split(rest, ",") {
			ct.Params = append(ct.Params, strings.TrimSpace(p))
		}
		return nil
	case "loop":
		// loop N invariant E | loop N modifies D
		f := strings.Fields(rest)
		if len(f) < 3 {
			return fmt.Errorf("loop clause wants: loop N invariant|modifies ...")
		}
		var n int
		if _, err := fmt.Sscanf(f[0], "%d", &n); err != nil {
			return fmt.Errorf("bad loop ordinal %q", f[0])
		}
		cl.Loop = n
		kind := f[1]
		if bi := strings.Index(kind, "["); bi > 0 {
			kind = kind[:bi]
		}
		body := strings.TrimSpace(strings.TrimPrefix(strings.TrimSpace(rest[len(f[0]):]), kind))
		if m := tagRe.FindStringSubmatch(body); m != nil {
			for _, t := range strings.Split(m[1], ",") {
				cl.Tags = append(cl.Tags, strings.TrimSpace(t))
			}
			body = strings.TrimSpace(body[len(m[0]):])
		}
		switch kind {
		case "invariant":
			cl.Kind = "invariant"
			if m := labelRe.FindStringSubmatch(body); m != nil {
				cl.Label = m[1]
				body = body[len(m[0]):]
			}
			e, err := parseSpecExpr(body)
			if err != nil {
				return err
			}
			cl.Text, cl.Expr = body, e
			cl.Ord = len(ct.Invs)
			ct.Invs = append(ct.Invs, cl)
		case "step":
			// loop N step E: what one iteration does, relating the state at the back edge
			// to the state at the head of the same iteration (iterold). Checked at every
			// back edge; not an invariant (nothing is assumed from it).
			cl.Kind = "step"
			if m := labelRe.FindStringSubmatch(body); m != nil {
				cl.Label = m[1]
				body = body[len(m[0]):]
			}
			e, err := parseSpecExpr(body)
			if err != nil {
				return err
			}
			cl.Text, cl.Expr = body, e
			cl.Ord = len(ct.Steps)
			ct.Steps = append(ct.Steps, cl)
		case "modifies":
			cl.Kind = "lmodifies"
			es, err := parseDesignators(body)
			if err != nil {
				return err
			}
			cl.Text, cl.Exprs = body, es
			ct.LMods = append(ct.LMods, cl)
		default:
			return fmt.Errorf("unknown loop clause %q", f[1])
		}
		return nil
	case "modifies":
		es, err := parseDesignators(rest)
		if err != nil {
			return err
		}
		cl.Text, cl.Exprs = rest, es
		ct.Modifies = append(ct.Modifies, cl)
		return nil
	case "use":
		e, err := parseSpecExpr(rest)
		if err != nil {
			return err
		}
		cl.Text, cl.Expr = rest, e
		ct.Uses = append(ct.Uses, cl)
		return nil
	}
	if m := labelRe.FindStringSubmatch(rest); m != nil {
		cl.Label = m[1]
		rest = rest[len(m[0]):]
	}
	e, err := parseSpecExpr(rest)
	if err != nil {
		return err
	}
	cl.Text, cl.Expr = rest, e
	switch kw {
	case "premise":
		cl.Ord = len(ct.Premises)
		ct.Premises = append(ct.Premises, cl)
	case "requires":
		cl.Ord = len(ct.Requires)
		ct.Requires = append(ct.Requires, cl)
	case "ensures":
		cl.Ord = len(ct.Ensures)
		ct.Ensures = append(ct.Ensures, cl)
	case "postulate":
		cl.Ord = len(ct.Ensures)
		cl.Assumed = true
		ct.Ensures = append(ct.Ensures, cl)
	}
	return nil
}

func (cl *Clause) name() string {
	if cl.Label != "" {
		return cl.Label
	}
	return fmt.Sprintf("#%d", cl.Ord+1)
}

// hasTag: base clauses (no tags) belong to every property.
func (cl *Clause) inSlice(prop string) bool {
	if prop == "" || len(cl.Tags) == 0 {
		return true
	}
	for _, t := range cl.Tags {
		if t == prop {
			return true
		}
	}
	return false
}

func (cl *Clause) hasTag(prop string) bool {
	for _, t := range cl.Tags {
		if t == prop {
			return true
		}
	}
	return false
}

func parseDef(s, pkg string, isPred bool) (*SpecDef, error) {
	// name(p1, p2) = body
	eqi := strings.Index(s, "=")
	for eqi >= 0 && eqi+1 < len(s) && (s[eqi+1] == '=' || (eqi > 0 && strings.ContainsRune("=!<>", rune(s[eqi-1])))) {
		nx := strings.Index(s[eqi+2:], "=")
		if nx < 0 {
			eqi = -1
			break
		}
		eqi = eqi + 2 + nx
	}
	if eqi < 0 {
		return nil, fmt.Errorf("definition wants: name(params) = body")
	}
	head := strings.TrimSpace(s[:eqi])
	body := strings.TrimSpace(s[eqi+1:])
	lp := strings.Index(head, "(")
	if lp < 0 || !strings.HasSuffix(head, ")") {
		return nil, fmt.Errorf("bad definition head %q", head)
	}
	d := &SpecDef{Name: strings.TrimSpace(head[:lp]), Pkg: pkg, IsPred: isPred, Text: body}
	for _, p := range strings.Split(head[lp+1:len(head)-1], ",") {
		p = strings.TrimSpace(p)
		if p == "" {
			continue
		}
		if f := strings.Fields(p); len(f) > 1 {
			p = f[0]
		}
		d.Params = append(d.Params, p)
	}
	e, err := parseSpecExpr(body)
	if err != nil {
		return nil, err
	}
	d.Body = e
	return d, nil
}

func parseDesignators(s string) ([]ast.Expr, error) {
	s = strings.TrimSpace(s)
	if s == "nothing" || s == "" {
		return nil, nil
	}
	if strings.HasPrefix(s, "everything except ") || strings.HasPrefix(s, "everything,") {
		// everything [except <heap-key-prefix>, ...] [, count(x), ...]
		// "everything" is the whole heap; ghost counters change only when listed.
		var args []ast.Expr
		var extra []ast.Expr
		body := strings.TrimPrefix(strings.TrimPrefix(s, "everything"), " except")
		for _, p := range splitTop(body, ',') {
			p = strings.TrimSpace(p)
			if p == "" {
				continue
			}
			if strings.HasPrefix(p, "count(") {
				e, err := parser.ParseExpr(p)
				if err != nil {
					return nil, err
				}
				extra = append(extra, e)
				continue
			}
			args = append(args, &ast.BasicLit{Kind: token.STRING, Value: strconv.Quote(p)})
		}
		return append([]ast.Expr{&ast.CallExpr{Fun: &ast.Ident{Name: "everythingExcept"}, Args: args}}, extra...), nil
	}
	var out []ast.Expr
	for _, part := range splitTop(s, ',') {
		part = strings.TrimSpace(part)
		part = strings.ReplaceAll(part, "[*]", "[ALL]")
		part = strings.ReplaceAll(part, ".*", ".ALLFIELDS")
		e, err := parser.ParseExpr(part)
		if err != nil {
			return nil, fmt.Errorf("designator %q: %v", part, err)
		}
		out = append(out, e)
	}
	return out, nil
}

// parseSpecExpr parses a specification expression: Go expression syntax plus
// `==>` (right associative, lowest precedence) and `<==>`.
func parseSpecExpr(s string) (ast.Expr, error) {
	r := rewriteImplies(s)
	e, err := parser.ParseExpr(r)
	if err != nil {
		return nil, fmt.Errorf("spec expression %q: %v", s, err)
	}
	return e, nil
}

// splitTop splits s at top-level occurrences of sep (outside brackets/strings).
func splitTop(s string, sep byte) []string {
	var out []string
	d := 0
	start := 0
	inStr := byte(0)
	for i := 0; i < len(s); i++ {
		c := s[i]
		if inStr != 0 {
			if c == '\\' {
				i++
			} else if c == inStr {
				inStr = 0
			}
			continue
		}
		switch c {
		case '"', '\'', '`':
			inStr = c
		case '(', '[', '{':
			d++
		case ')', ']', '}':
			d--
		default:
			if c == sep && d == 0 {
				out = append(out, s[start:i])
				start = i + 1
			}
		}
	}
	out = append(out, s[start:])
	return out
}

// rewriteImplies turns `a ==> b` into `imp(a, b)` and `a <==> b` into
// `iff(a, b)` at every nesting level.
func rewriteImplies(s string) string {
	// first rewrite inside bracket groups
	var b strings.Builder
	i := 0
	inStr := byte(0)
	for i < len(s) {
		c := s[i]
		if inStr != 0 {
			b.WriteByte(c)
			if c == '\\' && i+1 < len(s) {
				b.WriteByte(s[i+1])
				i++
			} else if c == inStr {
				inStr = 0
			}
			i++
			continue
		}
		if c == '"' || c == '\'' || c == '`' {
			inStr = c
			b.WriteByte(c)
			i++
			continue
		}
		if c == '(' || c == '[' {
			closer := byte(')')
			if c == '[' {
				closer = ']'
			}
			j := matchClose(s, i)
			inner := s[i+1 : j]
			parts := splitTop(inner, ',')
			for k := range parts {
				parts[k] = rewriteImplies(parts[k])
			}
			b.WriteByte(c)
			b.WriteString(strings.Join(parts, ","))
			b.WriteByte(closer)
			i = j + 1
			continue
		}
		b.WriteByte(c)
		i++
	}
	s = b.String()
	// now split this level
	if parts := splitTopStr(s, "<==>"); len(parts) > 1 {
		r := rewriteLevel(parts[len(parts)-1])
		for k := len(parts) - 2; k >= 0; k-- {
			r = "iff(" + rewriteLevel(parts[k]) + ", " + r + ")"
		}
		return r
	}
	return rewriteLevel(s)
}

func rewriteLevel(s string) string {
	parts := splitTopStr(s, "==>")
	if len(parts) == 1 {
		return s
	}
	r := parts[len(parts)-1]
	for k := len(parts) - 2; k >= 0; k-- {
		r = "imp(" + parts[k] + ", " + r + ")"
	}
	return r
}

func splitTopStr(s, sep string) []string {
	var out []string
	d := 0
	start := 0
	inStr := byte(0)
	for i := 0; i < len(s); i++ {
		c := s[i]
		if inStr != 0 {
			if c == '\\' {
				i++
			} else if c == inStr {
				inStr = 0
			}
			continue
		}
		switch c {
		case '"', '\'', '`':
			inStr = c
		case '(', '[', '{':
			d++
		case ')', ']', '}':
			d--
		default:
			if d == 0 && strings.HasPrefix(s[i:], sep) {
				// do not split "<==>" when looking for "==>"
				if sep == "==>" && i > 0 && s[i-1] == '<' {
					continue
				}
				out = append(out, s[start:i])
				start = i + len(sep)
				i += len(sep) - 1
			}
		}
	}
	out = append(out, s[start:])
	return out
}

func matchClose(s string, i int) int {
	d := 0
	inStr := byte(0)
	for j := i; j < len(s); j++ {
		c := s[j]
		if inStr != 0 {
			if c == '\\' {
				j++
			} else if c == inStr {
				inStr = 0
			}
			continue
		}
		switch c {
		case '"', '\'', '`':
			inStr = c
		case '(', '[', '{':
			d++
		case ')', ']', '}':
			d--
			if d == 0 {
				return j
			}
		}
	}
	return len(s) - 1
}
