package main

// Discharging obligations: z3-new first, then a race of z3 4.8.12 and cvc5.

import (
	"context"
	"fmt"
	"os"
	"os/exec"
	"path/filepath"
	"runtime"
	"strings"
	"sync"
	"time"
)

type solverSpec struct {
	name string
	bin  string
	args []string
}

var solvers = []solverSpec{
	{"z3-new", "z3-new", []string{"-smt2"}},
	{"z3", "/usr/bin/z3", []string{"-smt2"}},
	{"cvc5", "cvc5", []string{"--lang=smt2", "--incremental", "--strings-exp"}},
}

type SolveOpts struct {
	Dir       string        // scratch directory for .smt2 files
	Stage1    time.Duration // z3-new alone
	Stage2    time.Duration // race of the other two
	All       bool          // thorough: run every solver and cross-check
	Workers   int
	KeepFiles bool
	NoBatch   bool
	NoRetry   bool
}

type solveStats struct {
	mu    sync.Mutex
	wins  map[string]int
	secs  map[string]float64
	disag []string
}

func (o *Obligation) smt(withModel bool) string {
	var b strings.Builder
	b.WriteString("(set-option :produce-models true)\n(set-logic ALL)\n")
	npf := -1
	if o.batch {
		npf = o.noProvedFrom
	}
	if o.sc.native {
		b.WriteString(o.sc.nativePrefix(o.mark, o.hide, npf))
	} else {
		b.WriteString(o.sc.prefixHiding(o.mark, o.hide, npf, o.Kind == "frame" && strings.Contains(o.Name, ":gs:")))
	}
	b.WriteString("\n(assert " + o.cond + ")\n(check-sat)\n")
	if withModel && len(o.getvals) > 0 {
		b.WriteString("(get-value (" + strings.Join(o.getvals, " ") + "))\n")
	}
	return b.String()
}

func runSolver(ctx context.Context, s solverSpec, file string, limit time.Duration) (verdict string, out string, secs float64) {
	cctx, cancel := context.WithTimeout(ctx, limit)
	defer cancel()
	args := append([]string{}, s.args...)
	switch s.name {
	case "z3", "z3-new":
		args = append(args, fmt.Sprintf("-T:%d", int(limit.Seconds())+1))
	case "cvc5":
		args = append(args, fmt.Sprintf("--tlimit=%d", limit.Milliseconds()))
	}
	args = append(args, file)
	t0 := time.Now()
	cmd := exec.CommandContext(cctx, s.bin, args...)
	b, _ := cmd.CombinedOutput()
	secs = time.Since(t0).Seconds()
	out = string(b)
	first := strings.TrimSpace(strings.SplitN(out, "\n", 2)[0])
	switch first {
	case "unsat", "sat", "unknown":
		return first, out, secs
	}
	if cctx.Err() != nil {
		return "timeout", out, secs
	}
	if strings.Contains(out, "timeout") {
		return "timeout", out, secs
	}
	if os.Getenv("VCGO_DEBUG") != "" {
		fmt.Fprintf(os.Stderr, "solver %s error on %s: %s\n", s.name, file, firstLines(out, 4))
	}
	return "error", out, secs
}

func solveQuery(o *Obligation, opts SolveOpts, stats *solveStats, idx int) {
	file := filepath.Join(opts.Dir, fmt.Sprintf("o%07d.smt2", idx))
	if err := os.WriteFile(file, []byte(o.smt(false)), 0644); err != nil {
		o.Result, o.Output = "unknown", err.Error()
		return
	}
	if !opts.KeepFiles {
		defer os.Remove(file)
	}
	record := func(s string, v string, secs float64) {
		stats.mu.Lock()
		stats.secs[s] += secs
		if v == "unsat" || v == "sat" {
			stats.wins[s]++
		}
		stats.mu.Unlock()
	}
	t0 := time.Now()
	defer func() { o.Secs = time.Since(t0).Seconds() }()
	ctx := context.Background()
	if opts.All {
		// thorough: all solvers, cross-checked
		type ans struct{ s, v, out string }
		ch := make(chan ans, len(solvers))
		for _, s := range solvers {
			go func(s solverSpec) {
				v, out, secs := runSolver(ctx, s, file, opts.Stage2)
				record(s.name, v, secs)
				ch <- ans{s.name, v, out}
			}(s)
		}
		var unsat, sat []string
		var outs []string
		for range solvers {
			a := <-ch
			outs = append(outs, a.s+": "+a.v)
			switch a.v {
			case "unsat":
				unsat = append(unsat, a.s)
			case "sat":
				sat = append(sat, a.s)
				o.Model = a.out
			}
		}
		o.Output = strings.Join(outs, "; ")
		switch {
		case len(unsat) > 0 && len(sat) > 0:
			o.Result = "disagreement"
			stats.mu.Lock()
			stats.disag = append(stats.disag, o.Fn+" "+o.Name+": "+o.Output)
			stats.mu.Unlock()
		case len(unsat) > 0:
			o.Result, o.Solver = "unsat", strings.Join(unsat, "+")
		case len(sat) > 0:
			o.Result, o.Solver = "sat", strings.Join(sat, "+")
		default:
			o.Result = "unknown"
		}
		return
	}
	if o.Smoke {
		// reachability checks only need "not unsat": one solver, short limit
		v, out, secs := runSolver(ctx, solvers[0], file, time.Second)
		record(solvers[0].name, v, secs)
		o.Result, o.Solver, o.Output = v, solvers[0].name, firstLines(out, 2)
		if v != "unsat" && v != "sat" {
			o.Result = "unknown"
		}
		return
	}
	// stage 1: most queries are decided by z3-new within a fraction of a second;
	// trying it alone first saves two thirds of the processes
	if opts.Stage1 > 0 {
		v, out, secs := runSolver(ctx, solvers[0], file, opts.Stage1)
		record(solvers[0].name, v, secs)
		if v == "unsat" || v == "sat" {
			o.Result, o.Solver, o.Output = v, solvers[0].name, solvers[0].name+": "+v
			if v == "sat" {
				o.Model = out
			}
			return
		}
	}
	// race: first definitive answer wins
	rctx, cancel := context.WithCancel(ctx)
	defer cancel()
	type ans struct {
		s, v, out string
	}
	ch := make(chan ans, len(solvers))
	for _, s := range solvers {
		go func(s solverSpec) {
			v, out, secs := runSolver(rctx, s, file, opts.Stage2)
			record(s.name, v, secs)
			ch <- ans{s.name, v, out}
		}(s)
	}
	var outs []string
	for range solvers {
		a := <-ch
		outs = append(outs, a.s+": "+a.v)
		if a.v == "unsat" || a.v == "sat" {
			o.Result, o.Solver = a.v, a.s
			o.Output = strings.Join(outs, "; ")
			if a.v == "sat" {
				o.Model = a.out
			}
			cancel()
			return
		}
	}
	o.Result, o.Output = "unknown", strings.Join(outs, "; ")
	if strings.Count(o.Output, ": error") == len(solvers) {
		o.Result = "error"
	}
}

func firstLines(s string, n int) string {
	l := strings.SplitN(s, "\n", n+1)
	if len(l) > n {
		l = l[:n]
	}
	return strings.TrimSpace(strings.Join(l, " | "))
}

func solveAll(obls []*Obligation, opts SolveOpts) *solveStats {
	stats := &solveStats{wins: map[string]int{}, secs: map[string]float64{}}
	if opts.Workers <= 0 {
		opts.Workers = runtime.NumCPU()
	}
	// one task per query: obligations with several parts (return paths) are
	// split and aggregated afterwards
	type task struct {
		o    *Obligation
		part int
		sub  *Obligation
	}
	var tasks []*task
	for _, o := range obls {
		if len(o.parts) == 0 {
			tasks = append(tasks, &task{o: o, part: -1, sub: o})
			continue
		}
		for pi, p := range o.parts {
			if p == "false" {
				continue
			}
			sub := *o
			sub.parts = nil
			sub.cond = p
			if pi < len(o.partHide) {
				sub.hide = o.partHide[pi]
			}
			tasks = append(tasks, &task{o: o, part: pi, sub: &sub})
		}
	}
	// Batching (quick tier): the clauses of one postcondition / invariant set on
	// the same path share their whole prefix, so they are first tried as one
	// query (the disjunction of the negated goals). Only if that is not unsat
	// are the members solved one by one, so every verdict that is reported as a
	// failure still comes from the clause's own query.
	batched := map[*task]bool{}
	if !opts.NoBatch {
		groups := map[string][]*task{}
		var keys []string
		for _, t := range tasks {
			if t.part < 0 || t.o.Canary || t.o.Smoke || t.o.Finding != "" {
				continue
			}
			if t.o.Kind != "postcondition" && t.o.Kind != "invariant" {
				continue
			}
			k := fmt.Sprintf("%s|%s|%p|%d|%v", t.o.Fn, t.o.Kind, t.o.sc, t.part, t.sub.hide)
			if t.o.Kind == "invariant" {
				// entry/preserved of one loop
				nm := t.o.Name
				if i := strings.LastIndex(nm, ":"); i > 0 {
					nm = nm[:i]
				}
				k += "|" + nm
			}
			if _, ok := groups[k]; !ok {
				keys = append(keys, k)
			}
			groups[k] = append(groups[k], t)
		}
		var bts [][]*task
		for _, k := range keys {
			if len(groups[k]) > 1 {
				bts = append(bts, groups[k])
			}
		}
		var bwg sync.WaitGroup
		bch := make(chan int)
		for w := 0; w < opts.Workers; w++ {
			bwg.Add(1)
			go func() {
				defer bwg.Done()
				for i := range bch {
					g := bts[i]
					b := *g[0].sub
					b.batch = true
					b.noProvedFrom = b.mark
					var conds []T
					for _, t := range g {
						conds = append(conds, t.sub.cond)
						if t.sub.mark > b.mark {
							b.mark = t.sub.mark
						}
						if t.sub.mark < b.noProvedFrom {
							b.noProvedFrom = t.sub.mark
						}
					}
					b.cond = or(conds...)
					// a batch that is not decided quickly is cheaper to decide clause by clause
					bo := opts
					if bo.Stage2 > 5*time.Second {
						bo.Stage2 = 5 * time.Second
					}
					solveQuery(&b, bo, stats, 1000000+i)
					if b.Result == "unsat" {
						for _, t := range g {
							t.sub.Result, t.sub.Solver, t.sub.Secs = "unsat", b.Solver, b.Secs/float64(len(g))
							t.sub.Output = "batched with the other clauses of this path"
						}
					}
				}
			}()
		}
		for i := range bts {
			bch <- i
		}
		close(bch)
		bwg.Wait()
		for _, g := range bts {
			for _, t := range g {
				if t.sub.Result == "unsat" {
					batched[t] = true
				}
			}
		}
	}
	var wg sync.WaitGroup
	ch := make(chan int)
	for w := 0; w < opts.Workers; w++ {
		wg.Add(1)
		go func() {
			defer wg.Done()
			for i := range ch {
				t := tasks[i]
				po := opts
				if t.o.Canary {
					// expected to fail: a short limit is enough to notice a stale entry
					po.Stage2 = 3 * time.Second
					po.All = false
				}
				solveQuery(t.sub, po, stats, i)
			}
		}()
	}
	for i := range tasks {
		if batched[tasks[i]] {
			continue
		}
		ch <- i
	}
	close(ch)
	wg.Wait()
	// second chance: a query that came back undecided while the machine was
	// saturated (up to three solver processes per worker) is run again with few
	// workers and three times the limit before it is reported
	if !opts.NoRetry {
		var again []int
		for i, t := range tasks {
			if batched[t] || t.o.Canary || t.o.Smoke {
				continue
			}
			if r := t.sub.Result; r != "unsat" && r != "sat" && r != "disagreement" {
				again = append(again, i)
			}
		}
		if len(again) > 0 && len(again) <= 64 {
			var wg2 sync.WaitGroup
			ch2 := make(chan int)
			nw := opts.Workers / 3
			if nw < 1 {
				nw = 1
			}
			for w := 0; w < nw; w++ {
				wg2.Add(1)
				go func() {
					defer wg2.Done()
					for i := range ch2 {
						po := opts
						po.Stage1 = 0
						po.Stage2 = 3 * opts.Stage2
						if opts.All {
							// thorough: the cross-check is done; what is left is to decide the query
							po.All = false
							po.Stage2 = 60 * time.Second
						}
						first := tasks[i].sub.Secs
						solveQuery(tasks[i].sub, po, stats, 2000000+i)
						tasks[i].sub.Secs += first
						tasks[i].sub.Output = "retried: " + tasks[i].sub.Output
					}
				}()
			}
			for _, i := range again {
				ch2 <- i
			}
			close(ch2)
			wg2.Wait()
		}
	}
	// aggregate
	agg := map[*Obligation][]*task{}
	for _, t := range tasks {
		if t.part >= 0 {
			agg[t.o] = append(agg[t.o], t)
		}
	}
	for o, ts := range agg {
		res := "unsat"
		var outs []string
		secs := 0.0
		for _, t := range ts {
			outs = append(outs, fmt.Sprintf("path %d: %s", t.part, t.sub.Result))
			secs += t.sub.Secs
			if t.sub.Solver != "" {
				o.Solver = t.sub.Solver
			}
			switch {
			case t.sub.Result == "sat":
				if res != "sat" {
					res = "sat"
					o.Model, o.cond = t.sub.Model, t.sub.cond
				}
			case t.sub.Result != "unsat":
				if res == "unsat" {
					res = t.sub.Result
					o.cond = t.sub.cond
				}
			}
		}
		if len(ts) == 0 {
			res = "unsat"
		}
		o.Result, o.Output, o.Secs = res, strings.Join(outs, "; "), secs
	}
	for _, o := range obls {
		if len(o.parts) > 0 && o.Result == "" {
			o.Result = "unsat" // every part was trivially false
		}
	}
	return stats
}
