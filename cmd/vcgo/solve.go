package main

// Discharging obligations: z3-new first, then a race of z3 4.8.12 and cvc5.

import (
	"context"
	"fmt"
	"os"
	"os/exec"
	"path/filepath"
	"strings"
	"sync"
	"time"
)

type solverSpec struct {
	name string
	bin  string
	args []string
}

var solvers = []solverSpec{
	{"z3-new", "z3-new", []string{"-smt2"}},
	{"z3", "/usr/bin/z3", []string{"-smt2"}},
	{"cvc5", "cvc5", []string{"--lang=smt2", "--incremental"}},
}

type SolveOpts struct {
	Dir       string        // scratch directory for .smt2 files
	Stage1    time.Duration // z3-new alone
	Stage2    time.Duration // race of the other two
	All       bool          // thorough: run every solver and cross-check
	Workers   int
	KeepFiles bool
}

type solveStats struct {
	mu    sync.Mutex
	wins  map[string]int
	secs  map[string]float64
	disag []string
}

func (o *Obligation) smt(withModel bool) string {
	var b strings.Builder
	b.WriteString("(set-option :produce-models true)\n(set-logic ALL)\n")
	b.WriteString(o.sc.prefix(o.mark))
	b.WriteString("\n(assert " + o.cond + ")\n(check-sat)\n")
	if withModel && len(o.getvals) > 0 {
		b.WriteString("(get-value (" + strings.Join(o.getvals, " ") + "))\n")
	}
	return b.String()
}

func runSolver(ctx context.Context, s solverSpec, file string, limit time.Duration) (verdict string, out string, secs float64) {
	cctx, cancel := context.WithTimeout(ctx, limit)
	defer cancel()
	args := append([]string{}, s.args...)
	switch s.name {
	case "z3", "z3-new":
		args = append(args, fmt.Sprintf("-T:%d", int(limit.Seconds())+1))
	case "cvc5":
		args = append(args, fmt.Sprintf("--tlimit=%d", limit.Milliseconds()))
	}
	args = append(args, file)
	t0 := time.Now()
	cmd := exec.CommandContext(cctx, s.bin, args...)
	b, _ := cmd.CombinedOutput()
	secs = time.Since(t0).Seconds()
	out = string(b)
	first := strings.TrimSpace(strings.SplitN(out, "\n", 2)[0])
	switch first {
	case "unsat", "sat", "unknown":
		return first, out, secs
	}
	if cctx.Err() != nil {
		return "timeout", out, secs
	}
	if strings.Contains(out, "timeout") {
		return "timeout", out, secs
	}
	if os.Getenv("VCGO_DEBUG") != "" {
		fmt.Fprintf(os.Stderr, "solver %s error on %s: %s\n", s.name, file, firstLines(out, 4))
	}
	return "error", out, secs
}

func solveQuery(o *Obligation, opts SolveOpts, stats *solveStats, idx int) {
	file := filepath.Join(opts.Dir, fmt.Sprintf("o%07d.smt2", idx))
	if err := os.WriteFile(file, []byte(o.smt(false)), 0644); err != nil {
		o.Result, o.Output = "unknown", err.Error()
		return
	}
	if !opts.KeepFiles {
		defer os.Remove(file)
	}
	record := func(s string, v string, secs float64) {
		stats.mu.Lock()
		stats.secs[s] += secs
		if v == "unsat" || v == "sat" {
			stats.wins[s]++
		}
		stats.mu.Unlock()
	}
	t0 := time.Now()
	defer func() { o.Secs = time.Since(t0).Seconds() }()
	ctx := context.Background()
	if opts.All {
		// thorough: all solvers, cross-checked
		type ans struct{ s, v, out string }
		ch := make(chan ans, len(solvers))
		for _, s := range solvers {
			go func(s solverSpec) {
				v, out, secs := runSolver(ctx, s, file, opts.Stage2)
				record(s.name, v, secs)
				ch <- ans{s.name, v, out}
			}(s)
		}
		var unsat, sat []string
		var outs []string
		for range solvers {
			a := <-ch
			outs = append(outs, a.s+": "+a.v)
			switch a.v {
			case "unsat":
				unsat = append(unsat, a.s)
			case "sat":
				sat = append(sat, a.s)
				o.Model = a.out
			}
		}
		o.Output = strings.Join(outs, "; ")
		switch {
		case len(unsat) > 0 && len(sat) > 0:
			o.Result = "disagreement"
			stats.mu.Lock()
			stats.disag = append(stats.disag, o.Fn+" "+o.Name+": "+o.Output)
			stats.mu.Unlock()
		case len(unsat) > 0:
			o.Result, o.Solver = "unsat", strings.Join(unsat, "+")
		case len(sat) > 0:
			o.Result, o.Solver = "sat", strings.Join(sat, "+")
		default:
			o.Result = "unknown"
		}
		return
	}
	if o.Smoke {
		// reachability checks only need "not unsat": one solver, short limit
		v, out, secs := runSolver(ctx, solvers[0], file, 2*time.Second)
		record(solvers[0].name, v, secs)
		o.Result, o.Solver, o.Output = v, solvers[0].name, firstLines(out, 2)
		if v != "unsat" && v != "sat" {
			o.Result = "unknown"
		}
		return
	}
	// race: first definitive answer wins
	rctx, cancel := context.WithCancel(ctx)
	defer cancel()
	type ans struct {
		s, v, out string
	}
	ch := make(chan ans, len(solvers))
	for _, s := range solvers {
		go func(s solverSpec) {
			v, out, secs := runSolver(rctx, s, file, opts.Stage2)
			record(s.name, v, secs)
			ch <- ans{s.name, v, out}
		}(s)
	}
	var outs []string
	for range solvers {
		a := <-ch
		outs = append(outs, a.s+": "+a.v)
		if a.v == "unsat" || a.v == "sat" {
			o.Result, o.Solver = a.v, a.s
			o.Output = strings.Join(outs, "; ")
			if a.v == "sat" {
				o.Model = a.out
			}
			cancel()
			return
		}
	}
	o.Result, o.Output = "unknown", strings.Join(outs, "; ")
	if strings.Count(o.Output, ": error") == len(solvers) {
		o.Result = "error"
	}
}

func firstLines(s string, n int) string {
	l := strings.SplitN(s, "\n", n+1)
	if len(l) > n {
		l = l[:n]
	}
	return strings.TrimSpace(strings.Join(l, " | "))
}

func solveAll(obls []*Obligation, opts SolveOpts) *solveStats {
	stats := &solveStats{wins: map[string]int{}, secs: map[string]float64{}}
	if opts.Workers <= 0 {
		opts.Workers = 8
	}
	// one task per query: obligations with several parts (return paths) are
	// split and aggregated afterwards
	type task struct {
		o    *Obligation
		part int
		sub  *Obligation
	}
	var tasks []*task
	for _, o := range obls {
		if len(o.parts) == 0 {
			tasks = append(tasks, &task{o: o, part: -1, sub: o})
			continue
		}
		for pi, p := range o.parts {
			if p == "false" {
				continue
			}
			sub := *o
			sub.parts = nil
			sub.cond = p
			tasks = append(tasks, &task{o: o, part: pi, sub: &sub})
		}
	}
	var wg sync.WaitGroup
	ch := make(chan int)
	for w := 0; w < opts.Workers; w++ {
		wg.Add(1)
		go func() {
			defer wg.Done()
			for i := range ch {
				t := tasks[i]
				po := opts
				if t.o.Canary {
					// expected to fail: a short limit is enough to notice a stale entry
					po.Stage2 = 3 * time.Second
					po.All = false
				}
				solveQuery(t.sub, po, stats, i)
			}
		}()
	}
	for i := range tasks {
		ch <- i
	}
	close(ch)
	wg.Wait()
	// aggregate
	agg := map[*Obligation][]*task{}
	for _, t := range tasks {
		if t.part >= 0 {
			agg[t.o] = append(agg[t.o], t)
		}
	}
	for o, ts := range agg {
		res := "unsat"
		var outs []string
		secs := 0.0
		for _, t := range ts {
			outs = append(outs, fmt.Sprintf("path %d: %s", t.part, t.sub.Result))
			secs += t.sub.Secs
			if t.sub.Solver != "" {
				o.Solver = t.sub.Solver
			}
			switch {
			case t.sub.Result == "sat":
				if res != "sat" {
					res = "sat"
					o.Model, o.cond = t.sub.Model, t.sub.cond
				}
			case t.sub.Result != "unsat":
				if res == "unsat" {
					res = t.sub.Result
					o.cond = t.sub.cond
				}
			}
		}
		if len(ts) == 0 {
			res = "unsat"
		}
		o.Result, o.Output, o.Secs = res, strings.Join(outs, "; "), secs
	}
	for _, o := range obls {
		if len(o.parts) > 0 && o.Result == "" {
			o.Result = "unsat" // every part was trivially false
		}
	}
	return stats
}
