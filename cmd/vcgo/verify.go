package main

// Verification of one function against its contract.

import (
	"fmt"
	"go/ast"
	"go/token"
	"go/types"
	"os"
	"runtime/debug"
	"sort"
	"strings"

	"golang.org/x/tools/go/ssa"
)

type FnResult struct {
	Key       string
	Obls      []*Obligation
	Trusted   []string
	Err       error // function outside the supported subset / broken contract
	ErrDetail string
	GenSecs   float64
}

type VerifyOpts struct {
	Prop          string
	SafetyTags    []string // property tags carried by automatic safety obligations
	Safety        bool
	AllowFnSafety bool // check mode: per-function `safety[...]` directives switch safety obligations on
	Findings      []*Finding
}

func (P *Program) verifyFunction(key string, opts VerifyOpts) (res *FnResult) {
	res = &FnResult{Key: key}
	ct := P.CS.Funcs[key]
	fn := P.Funcs[key]
	if fn == nil {
		res.Err = fmt.Errorf("function %s under contract not found in the source tree", key)
		return
	}
	c := newCtx(P, opts.Prop)
	c.fnKey = key
	c.findings = opts.Findings
	c.safetyOn = opts.Safety && !ct.NoSafety
	// `safety[Cxx]` on a function: its no-panic obligations are part of that property
	// even when the property does not ask for them everywhere
	for _, t := range ct.Safety {
		if t == opts.Prop && !ct.NoSafety && opts.AllowFnSafety {
			c.safetyOn = true
		}
	}
	if ct.Native {
		c.sc.native = true
		c.trust("lemma " + key + ": decided over the solvers' native string theory (strings as code-point sequences, a superset of Go's byte strings)")
	}
	c.safetyTags = opts.SafetyTags
	if len(ct.Safety) > 0 {
		c.safetyTags = ct.Safety
	}
	defer func() {
		if r := recover(); r != nil {
			switch e := r.(type) {
			case unsupportedErr:
				res.Err = e
			case specErr:
				res.Err = e
			case error:
				res.Err = fmt.Errorf("internal: %v", e)
				res.ErrDetail = string(debug.Stack())
			default:
				res.Err = fmt.Errorf("internal: %v", r)
				if os.Getenv("VCGO_DEBUG") != "" {
					res.ErrDetail = string(debug.Stack())
				}
			}
		}
		res.Obls = c.obls
		for t := range c.trusted {
			res.Trusted = append(res.Trusted, t)
		}
		sort.Strings(res.Trusted)
	}()

	st := newState()
	top0 := c.sc.fresh("top0", sInt)
	c.sc.assume(ge(top0, "1")) // object 1 is the holder of ghost state functions
	st.top = top0
	c.entryTop = top0
	fr := c.newFrame(fn)
	fr.ct = ct
	fr.isTop = true
	c.topFrame = fr
	names := formalNames(fn.Signature, nil)
	for i, p := range fn.Params {
		v := c.freshVal("p."+p.Name(), p.Type(), top0)
		fr.env[p] = v
		fr.params[names[i]] = v
	}
	env := &Env{c: c, pkg: fr.pkg, vars: map[string]Val{}, st: st, at: key}
	for k, v := range fr.params {
		env.vars[k] = v
	}
	for _, cl := range ct.Requires {
		if !cl.inSlice(opts.Prop) {
			continue
		}
		c.sc.assume(c.evalClause(env, cl))
	}
	for _, cl := range ct.Premises {
		if !cl.inSlice(opts.Prop) {
			continue
		}
		c.trust("premise of " + key + ": " + cl.Text)
		c.sc.assume(c.evalClause(env, cl))
	}
	c.entry = st.clone()
	// lemma instances about the entry state are available from the start
	{
		ee := &Env{c: c, pkg: fr.pkg, vars: map[string]Val{}, st: c.entry, old: c.entry, oldTop: top0, at: key}
		for k, v := range fr.params {
			ee.vars[k] = v
		}
		for _, u := range ct.Uses {
			if u.inSlice(opts.Prop) && isLemmaUse(u.Expr) && allOld(u.Expr) {
				c.sc.assume(c.evalClause(ee, u))
			}
		}
	}
	c.replay = &replayInfo{fn: fn, names: names, entry: c.entry, ctx: c}
	for _, p := range fn.Params {
		c.replay.params = append(c.replay.params, fr.env[p])
	}
	// declared frame, evaluated in the entry state
	var locs []ModLoc
	for _, m := range ct.Modifies {
		for _, d := range m.Exprs {
			env.at = fmt.Sprintf("%s:%d", m.File, m.Line)
			locs = append(locs, env.designator(d)...)
		}
	}
	// vacuity guard: the precondition must be satisfiable
	c.smoke("smoke:pre", "true", fn.Pos())

	out, oreach, rv, rets := c.execBodyEdges(fr, st, "true")
	c.replay.result, c.replay.exit = rv, out

	// postconditions are evaluated on every return path separately (one named
	// obligation, one query per path): no ite-merged heaps in the goals
	var posts []*Env
	var reaches []T
	var poss []int
	for _, re := range rets {
		poss = append(poss, re.pos)
		post := &Env{c: c, pkg: fr.pkg, vars: map[string]Val{}, st: re.st, old: c.entry, oldTop: top0, at: key}
		for k, v := range fr.params {
			post.vars[k] = v
		}
		bindResults(post.vars, fn.Signature, re.res)
		c.applyGhostSets(ct, post)
		posts = append(posts, post)
		reaches = append(reaches, re.cond)
		c.applyUses(ct, post, re.cond)
	}
	// reachability probe per return path (information only: a path may be dead
	// under the precondition, but a path that should be live and is not points
	// at contradictory assumptions)
	if len(rets) > 1 {
		for i, re := range rets {
			o := &Obligation{Fn: c.fnKey, Name: fmt.Sprintf("reach:return%d", i), Kind: "smoke", Pos: c.P.pos(re.src), mark: c.sc.mark(),
				cond: re.cond, sc: c.sc, Smoke: true, Info: true, hide: c.sc.hideFor(re.pos)}
			c.obls = append(c.obls, o)
		}
	}
	for _, cl := range ct.Ensures {
		if !cl.inSlice(opts.Prop) {
			continue
		}
		if cl.Assumed {
			c.trust("postulate (postcondition of " + key + " used by callers, not checked against the body): " + cl.Text)
			continue
		}
		var goals []T
		for _, post := range posts {
			goals = append(goals, c.evalClause(post, cl))
		}
		c.obligeParts("postcondition", "post:"+cl.name(), cl.Tags, reaches, goals, fn.Pos(), cl.Text, poss...)
	}
	c.noHide = true
	if len(ct.GhostSets) > 0 {
		// the merged exit state (frame obligations) sees the same ghost assignments
		oe := &Env{c: c, pkg: fr.pkg, vars: map[string]Val{}, st: out, old: c.entry, oldTop: top0, at: key}
		for k, v := range fr.params {
			oe.vars[k] = v
		}
		bindResults(oe.vars, fn.Signature, rv)
		c.applyGhostSets(ct, oe)
	}
	c.frameObligations("frame", c.entry, out, locs, oreach, top0, fn.Pos())
	c.smoke("smoke:exit", oreach, fn.Pos())
	return
}

// applyGhostSets performs the contract's `ghostset G(key) = value` clauses on the
// state of one exit: value and key are evaluated in that state, then the ghost
// state function is updated at that key (a ghost statement at the return).
func (c *Ctx) applyGhostSets(ct *Contract, env *Env) {
	for _, cl := range ct.GhostSets {
		call, ok := cl.Exprs[0].(*ast.CallExpr)
		if !ok || len(call.Args) != 1 {
			panic("ghostset: left-hand side must be G(key)")
		}
		id, ok := call.Fun.(*ast.Ident)
		var g *GState
		if ok {
			g = c.P.CS.GStates[id.Name]
		}
		if g == nil {
			panic("ghostset: unknown ghost state function in " + cl.Text)
		}
		env.at = fmt.Sprintf("%s:%d", cl.File, cl.Line)
		k := env.eval(call.Args[0]).L[0]
		v := env.eval(cl.Exprs[1]).L[0]
		key, srt, _ := c.gstateKey(g)
		h := c.heapGet(env.st, key, srt)
		c.heapSet(env.st, key, srt, app("store", h, "1", app("store", sel(h, "1"), k, v)))
	}
}

// smoke records a reachability check: `reach` must be satisfiable together
// with everything assumed so far (otherwise proofs below it are vacuous).
func (c *Ctx) smoke(name string, reach T, pos token.Pos) {
	o := &Obligation{Fn: c.fnKey, Name: name, Kind: "smoke", Pos: c.P.pos(pos), mark: c.sc.mark(), cond: reach, sc: c.sc, Smoke: true}
	c.obls = append(c.obls, o)
}

// applyUses: explicit lemma instances (`use` clauses) are assumed after being
// proved as separate obligations.
func (c *Ctx) applyUses(ct *Contract, env *Env, reach T) {
	for i, u := range ct.Uses {
		if !u.inSlice(c.prop) {
			continue
		}
		g := c.evalClause(env, u)
		if isLemmaUse(u.Expr) {
			c.sc.assume(g)
			continue
		}
		c.oblige("lemma", fmt.Sprintf("use:#%d", i+1), u.Tags, reach, g, token.NoPos, u.Text)
	}
}

// sliceFunctions: the functions verified for a property = functions with a
// clause tagged with it, plus (transitively) the functions under contract they
// call, so that every assumed clause is also verified in the same run.
func (P *Program) sliceFunctions(prop string) []string {
	in := map[string]bool{}
	var work []string
	for k, ct := range P.CS.Funcs {
		if ct.Assumed {
			continue
		}
		if prop == "" || ct.mentions(prop) {
			in[k] = true
			work = append(work, k)
		}
	}
	for len(work) > 0 {
		k := work[len(work)-1]
		work = work[:len(work)-1]
		fn := P.Funcs[k]
		if fn == nil {
			continue
		}
		for _, callee := range P.calleesOf(fn, 0) {
			ck := funcKey(callee)
			if ct := P.CS.Funcs[ck]; ct != nil && !ct.Assumed && !in[ck] {
				in[ck] = true
				work = append(work, ck)
			}
		}
	}
	var out []string
	for k := range in {
		out = append(out, k)
	}
	sort.Strings(out)
	return out
}

func (ct *Contract) mentions(prop string) bool {
	for _, l := range [][]*Clause{ct.Requires, ct.Ensures, ct.Invs, ct.Uses, ct.Sites, ct.Steps} {
		for _, cl := range l {
			if cl.hasTag(prop) {
				return true
			}
		}
	}
	for _, t := range ct.Safety {
		if t == prop {
			return true
		}
	}
	for _, t := range ct.Serves {
		if t == prop {
			return true
		}
	}
	return false
}

// calleesOf lists statically resolvable callees, looking through inlined
// (contract-less) module functions and devirtualised interfaces.
func (P *Program) calleesOf(fn *ssa.Function, depth int) []*ssa.Function {
	var out []*ssa.Function
	if depth > maxInlineDepth {
		return nil
	}
	var fns []*ssa.Function
	fns = append(fns, fn)
	fns = append(fns, fn.AnonFuncs...)
	for _, f := range fns {
		for _, b := range f.Blocks {
			for _, ins := range b.Instrs {
				ci, ok := ins.(ssa.CallInstruction)
				if !ok {
					continue
				}
				cc := ci.Common()
				var callee *ssa.Function
				if cc.IsInvoke() {
					ik := typeKey(cc.Value.Type())
					for _, d := range P.CS.Devirts {
						if d.Iface == ik {
							callee = P.Funcs["("+d.Concrete+")."+cc.Method.Name()]
						}
					}
				} else {
					callee = cc.StaticCallee()
				}
				if callee == nil {
					continue
				}
				ck := funcKey(callee)
				if ct := P.CS.Funcs[ck]; ct != nil && !ct.Inline {
					out = append(out, callee)
				} else if inModule(pkgOf(callee)) && len(callee.Blocks) > 0 {
					out = append(out, P.calleesOf(callee, depth+1)...)
				}
			}
		}
	}
	return out
}

var _ = strings.Contains
var _ = types.Typ

// allOld: every conjunct of a lemma `use` is wrapped in old(...).
func allOld(x ast.Expr) bool {
	switch x := x.(type) {
	case *ast.ParenExpr:
		return allOld(x.X)
	case *ast.BinaryExpr:
		return allOld(x.X) && allOld(x.Y)
	case *ast.CallExpr:
		if id, ok := x.Fun.(*ast.Ident); ok && id.Name == "old" {
			return true
		}
	}
	return false
}
