package main

// Loading the current /repo working tree into typed AST + SSA (naive form:
// every source variable is an Alloc that keeps its name).

import (
	"fmt"
	"go/token"
	"go/types"
	"hash/fnv"
	"os"
	"path/filepath"
	"sort"
	"strings"
	"sync"

	"golang.org/x/tools/go/packages"
	"golang.org/x/tools/go/ssa"
	"golang.org/x/tools/go/ssa/ssautil"
)

const modulePath = "git.defalsify.org/vise.git"

var modulePkgs = []string{
	"./vm", "./state", "./cache", "./render", "./engine", "./persist", "./db", "./db/mem", "./db/fs",
	"./db/postgres", "./asm", "./resource", "./lang",
}

type Program struct {
	Repo     string
	Fset     *token.FileSet
	Prog     *ssa.Program
	Pkgs     map[string]*ssa.Package // by pkgKey ("vm", "db/mem", "strings", ...)
	ByName   map[string][]*ssa.Package
	Funcs    map[string]*ssa.Function // by function key
	CS       *ContractSet
	typeIDs  map[string]int
	typeByID map[int]types.Type
	// globals never stored outside package init
	constGlobals map[*ssa.Global]bool
	globalInit   map[*ssa.Global]ssa.Value // simple initialiser if known
	loadSecs     float64
}

func pkgKeyOf(path string) string {
	if strings.HasPrefix(path, modulePath+"/") {
		return path[len(modulePath)+1:]
	}
	return path
}

func inModule(p *types.Package) bool {
	return p != nil && (p.Path() == modulePath || strings.HasPrefix(p.Path(), modulePath+"/"))
}

func funcKey(fn *ssa.Function) string {
	if fn == nil {
		return "<nil>"
	}
	if recv := fn.Signature.Recv(); recv != nil {
		t := recv.Type()
		star := ""
		if p, ok := t.(*types.Pointer); ok {
			star = "*"
			t = p.Elem()
		}
		return "(" + star + typeKey(t) + ")." + fn.Name()
	}
	if fn.Pkg != nil {
		return pkgKeyOf(fn.Pkg.Pkg.Path()) + "." + fn.Name()
	}
	if fn.Parent() != nil {
		return funcKey(fn.Parent()) + "$" + fn.Name()
	}
	return fn.String()
}

func methodKey(recvT types.Type, name string) string {
	t := recvT
	star := ""
	if p, ok := t.(*types.Pointer); ok {
		star = "*"
		t = p.Elem()
	}
	return "(" + star + typeKey(t) + ")." + name
}

func loadProgram(repo string, stubs string) (*Program, error) {
	os.Setenv("GOFLAGS", "-mod=mod")
	os.Setenv("GOPROXY", "off")
	os.Setenv("GOSUMDB", "off")
	os.Setenv("GOTOOLCHAIN", "local")
	fset := token.NewFileSet()
	cfg := &packages.Config{
		Mode:       packages.LoadAllSyntax,
		Dir:        repo,
		Fset:       fset,
		BuildFlags: []string{"-tags=verif"},
	}
	pkgs, err := packages.Load(cfg, modulePkgs...)
	if err != nil {
		return nil, err
	}
	nerr := 0
	packages.Visit(pkgs, nil, func(p *packages.Package) {
		if !strings.HasPrefix(p.PkgPath, modulePath) {
			return
		}
		for _, e := range p.Errors {
			fmt.Fprintf(os.Stderr, "load error: %v\n", e)
			nerr++
		}
	})
	if nerr > 0 {
		return nil, fmt.Errorf("%d package load errors", nerr)
	}
	prog, _ := ssautil.AllPackages(pkgs, ssa.NaiveForm)
	P := &Program{Repo: repo, Fset: fset, Prog: prog, Pkgs: map[string]*ssa.Package{}, ByName: map[string][]*ssa.Package{},
		Funcs: map[string]*ssa.Function{}, typeIDs: map[string]int{}, typeByID: map[int]types.Type{},
		constGlobals: map[*ssa.Global]bool{}, globalInit: map[*ssa.Global]ssa.Value{}}
	for _, p := range prog.AllPackages() {
		P.Pkgs[pkgKeyOf(p.Pkg.Path())] = p
		P.ByName[p.Pkg.Name()] = append(P.ByName[p.Pkg.Name()], p)
		if inModule(p.Pkg) {
			p.Build()
		}
	}
	// index module functions and methods
	for _, p := range prog.AllPackages() {
		if !inModule(p.Pkg) {
			continue
		}
		for _, m := range p.Members {
			switch m := m.(type) {
			case *ssa.Function:
				P.Funcs[funcKey(m)] = m
			case *ssa.Type:
				for _, t := range []types.Type{m.Type(), types.NewPointer(m.Type())} {
					ms := prog.MethodSets.MethodSet(t)
					for i := 0; i < ms.Len(); i++ {
						f := prog.MethodValue(ms.At(i))
						if f != nil && f.Synthetic == "" {
							P.Funcs[funcKey(f)] = f
						}
					}
				}
			}
		}
	}
	P.scanGlobals()
	cs, err := loadContractsFor(repo, stubs)
	if err != nil {
		return nil, err
	}
	P.CS = cs
	return P, nil
}

// scanGlobals finds package-level variables of the module that are never
// assigned outside their package initialiser.
func (P *Program) scanGlobals() {
	stored := map[*ssa.Global]bool{}
	var visit func(fn *ssa.Function)
	seen := map[*ssa.Function]bool{}
	visit = func(fn *ssa.Function) {
		if fn == nil || seen[fn] {
			return
		}
		seen[fn] = true
		isInit := fn.Name() == "init" && fn.Signature.Recv() == nil
		for _, b := range fn.Blocks {
			for _, ins := range b.Instrs {
				if s, ok := ins.(*ssa.Store); ok {
					if g, ok := s.Addr.(*ssa.Global); ok {
						if isInit {
							if _, dup := P.globalInit[g]; dup {
								P.globalInit[g] = nil
							} else {
								P.globalInit[g] = s.Val
							}
						} else {
							stored[g] = true
						}
					}
				}
				// address of a global escaping through anything but load/store
				for _, op := range ins.Operands(nil) {
					if g, ok := (*op).(*ssa.Global); ok {
						switch i := ins.(type) {
						case *ssa.Store:
							if i.Addr != g {
								stored[g] = true
							}
						case *ssa.UnOp:
						default:
							stored[g] = true
						}
					}
				}
			}
		}
		for _, a := range fn.AnonFuncs {
			visit(a)
		}
	}
	for _, f := range P.Funcs {
		visit(f)
	}
	for _, p := range P.Prog.AllPackages() {
		if !inModule(p.Pkg) {
			continue
		}
		if f := p.Func("init"); f != nil {
			visit(f)
		}
		for _, m := range p.Members {
			if g, ok := m.(*ssa.Global); ok {
				if !stored[g] {
					P.constGlobals[g] = true
				}
			}
		}
	}
}

var typeMu sync.Mutex

func (P *Program) typeID(t types.Type) int {
	typeMu.Lock()
	defer typeMu.Unlock()
	k := typeKey(t)
	if id, ok := P.typeIDs[k]; ok {
		return id
	}
	// deterministic id: hash of the type's name (collisions resolved by probing)
	h := fnv.New32a()
	h.Write([]byte(k))
	id := int(h.Sum32()%1000000) + 1
	for {
		if _, used := P.typeByID[id]; !used {
			break
		}
		id++
	}
	P.typeIDs[k] = id
	P.typeByID[id] = t
	return id
}

func (P *Program) pos(p token.Pos) string {
	if !p.IsValid() {
		return ""
	}
	ps := P.Fset.Position(p)
	rel, err := filepath.Rel(P.Repo, ps.Filename)
	if err != nil {
		rel = ps.Filename
	}
	return fmt.Sprintf("%s:%d", rel, ps.Line)
}

// lookupPkgByName resolves a Go package *name* as seen from package `from`.
func (P *Program) lookupPkgByName(from *types.Package, name string) *types.Package {
	// explicit form for packages whose name is ambiguous: io_fs = "io/fs"
	if strings.Contains(name, "_") {
		path := strings.ReplaceAll(name, "_", "/")
		for _, cs := range P.ByName {
			for _, c := range cs {
				if c.Pkg.Path() == path {
					return c.Pkg
				}
			}
		}
	}
	if from != nil {
		if from.Name() == name {
			return from
		}
		for _, imp := range from.Imports() {
			if imp.Name() == name {
				return imp
			}
		}
	}
	cands := P.ByName[name]
	sort.Slice(cands, func(i, j int) bool {
		mi, mj := inModule(cands[i].Pkg), inModule(cands[j].Pkg)
		if mi != mj {
			return mi
		}
		return cands[i].Pkg.Path() < cands[j].Pkg.Path()
	})
	if len(cands) > 0 {
		return cands[0].Pkg
	}
	return nil
}

func loadContractsFor(repo, stubs string) (*ContractSet, error) {
	cs := newContractSet()
	var files []string
	filepath.Walk(repo, func(p string, info os.FileInfo, err error) error {
		if err != nil {
			return nil
		}
		if info.IsDir() && (info.Name() == ".git" || info.Name() == "doc" || info.Name() == "testdata") {
			return filepath.SkipDir
		}
		if !info.IsDir() && strings.HasSuffix(info.Name(), "_verif.go") {
			files = append(files, p)
		}
		return nil
	})
	sort.Strings(files)
	for _, f := range files {
		rel, _ := filepath.Rel(repo, filepath.Dir(f))
		if err := cs.loadFileAs(f, filepath.ToSlash(rel)); err != nil {
			return nil, err
		}
	}
	if stubs != "" {
		st, _ := filepath.Glob(filepath.Join(stubs, "*.go"))
		sort.Strings(st)
		for _, f := range st {
			if err := cs.loadFileAs(f, "stubs"); err != nil {
				return nil, err
			}
		}
	}
	return cs, nil
}
