package main

// Symbolic machine state: locals, typed Burstall heap, allocation frontier.

import (
	"fmt"
	"go/types"
	"sort"
	"strings"

	"golang.org/x/tools/go/ssa"
)

type localKey struct {
	frame int
	alloc *ssa.Alloc
}

type iterKey struct {
	frame int
	rng   ssa.Value
}

type deferRec struct {
	frame int
	instr *ssa.Defer
	args  []Val
	recv  *Val
}

// privBox: a heap box no callee can reach (see privateBox)
type privBox struct {
	typ types.Type
	ref T
}

type State struct {
	private    []privBox
	locals     map[localKey]Val
	heap       map[string]T // heap key -> current array term (absent = initial)
	top        T            // allocation frontier: every live reference is <= top
	iters      map[iterKey]T
	defers     []deferRec
	ghost      map[string]T // ghost counters etc.
	epoch      int          // bumped by `modifies everything`: untouched heap keys start from fresh arrays
	ghostEpoch int
	chain      []epochStep // how the current epoch was reached (for keys excepted from a havoc)
}

type epochStep struct {
	epoch, prev, prevGhost int
	except                 []string
}

func exceptMatches(except []string, key string) bool {
	for _, p := range except {
		if strings.HasPrefix(key, p) {
			return true
		}
	}
	return false
}

// baseEpoch: the epoch whose unknown array an untouched heap key still refers to.
func (s *State) baseEpoch(key string) int {
	e := s.epoch
	for i := len(s.chain) - 1; i >= 0; i-- {
		if s.chain[i].epoch == e && exceptMatches(s.chain[i].except, key) {
			e = s.chain[i].prev
		} else if s.chain[i].epoch == e {
			break
		}
	}
	return e
}

func (s *State) baseGhostEpoch(name string) int {
	e := s.ghostEpoch
	for i := len(s.chain) - 1; i >= 0; i-- {
		if s.chain[i].epoch == e && exceptMatches(s.chain[i].except, "ghost:"+name) {
			e = s.chain[i].prevGhost
		} else if s.chain[i].epoch == e {
			break
		}
	}
	return e
}

func newState() *State {
	return &State{locals: map[localKey]Val{}, heap: map[string]T{}, iters: map[iterKey]T{}, ghost: map[string]T{}}
}

func (s *State) clone() *State {
	n := newState()
	for k, v := range s.locals {
		n.locals[k] = v
	}
	for k, v := range s.heap {
		n.heap[k] = v
	}
	for k, v := range s.iters {
		n.iters[k] = v
	}
	for k, v := range s.ghost {
		n.ghost[k] = v
	}
	n.top = s.top
	n.epoch = s.epoch
	n.ghostEpoch = s.ghostEpoch
	n.chain = append([]epochStep(nil), s.chain...)
	n.defers = append([]deferRec(nil), s.defers...)
	n.private = append([]privBox(nil), s.private...)
	return n
}

// heapSorts remembers the SMT sort of every heap key that was touched.
type heapInfo struct {
	sort string
}

// ---- heap keys ----

func fieldKey(structT types.Type, field string, suffix string) string {
	return "f:" + typeKey(structT) + "." + field + suffix
}
func elemKey(elemT types.Type, suffix string) string { return "e:" + typeKey(elemT) + suffix }
func boxKey(t types.Type, suffix string) string      { return "b:" + typeKey(t) + suffix }
func mapDomKey(m *types.Map) string                  { return "md:" + typeKey(m.Key()) + "," + typeKey(m.Elem()) }
func mapValKey(m *types.Map, suffix string) string {
	return "mv:" + typeKey(m.Key()) + "," + typeKey(m.Elem()) + suffix
}
func globKey(name string, suffix string) string { return "g:" + name + suffix }

func keySortOfMap(m *types.Map) string {
	ls := leavesOf(m.Key())
	if len(ls) != 1 {
		panic(unsupported("map key type " + m.Key().String()))
	}
	return ls[0].Sort
}

// heapGet returns the current term of a heap key, declaring the initial
// version on first use.
func (c *Ctx) heapGet(st *State, key, sort string) T {
	if t, ok := st.heap[key]; ok {
		return t
	}
	if e := st.baseEpoch(key); e > 0 {
		return c.heapEpoch(e, key, sort)
	}
	return c.heapInit(key, sort)
}

// heapEpoch: the unknown content of a heap key after a `modifies everything`.
func (c *Ctx) heapEpoch(epoch int, key, sort string) T {
	name := fmt.Sprintf("He%d.%s", epoch, smtSym(key))
	if old, ok := c.heapSort[key]; ok && old != sort {
		panic(fmt.Sprintf("heap key %s used at sorts %s and %s", key, old, sort))
	}
	c.heapSort[key] = sort
	if _, done := c.sc.decls[name]; !done {
		c.sc.declare(name, sort)
		// type invariants of the new array relative to the allocation frontier of that epoch
		if l, ok := c.keyLeaf[key]; ok {
			top := c.epochTop[epoch]
			_, inner := innerSort(sort)
			if strings.HasPrefix(inner, "(Array") {
				ks, _ := innerSort(inner)
				x := "(select (select " + name + " r) i)"
				if f := allocGuard(l, c.leafFact(l, x, top), top); f != "true" {
					c.sc.assume(fmt.Sprintf("(forall ((r Int) (i %s)) (! %s :pattern (%s)))", ks, f, x))
				}
			} else if strings.HasPrefix(sort, "(Array") {
				x := "(select " + name + " r)"
				if f := allocGuard(l, c.leafFact(l, x, top), top); f != "true" {
					c.sc.assume(fmt.Sprintf("(forall ((r Int)) (! %s :pattern (%s)))", f, x))
				}
			}
		}
	}
	return name
}

func (c *Ctx) heapInit(key, sort string) T {
	name := "H0." + smtSym(key)
	if old, ok := c.heapSort[key]; ok && old != sort {
		panic(fmt.Sprintf("heap key %s used at sorts %s and %s", key, old, sort))
	}
	c.heapSort[key] = sort
	c.sc.declare(name, sort)
	return name
}

// noteRef: type invariants of heap arrays in the entry state of the function
// under verification: every stored reference is allocated, every stored
// integer is in the range of its Go type, slice headers are well-formed.
func (c *Ctx) noteRef(key, sort string, l Leaf) {
	if c.factsDone["leafkey:"+key] {
		return
	}
	c.factsDone["leafkey:"+key] = true
	c.keyLeaf[key] = l
	switch l.Kind {
	case lkRef, lkSlRef, lkIfRef:
		c.factsDone["refkey:"+key] = true
	}
	h := c.heapInit(key, sort)
	if c.entryTop == "" {
		return
	}
	_, inner := innerSort(sort)
	if l.Kind == lkSlLen && strings.HasSuffix(key, "#len") {
		// a nil slice has length 0 (relation between the header components)
		rk := strings.TrimSuffix(key, "#len") + "#ref"
		rh := c.heapInit(rk, sort)
		if strings.HasPrefix(inner, "(Array") {
			ks, _ := innerSort(inner)
			c.sc.assumeG(fmt.Sprintf("(forall ((r Int) (i %s)) (! (=> (= (select (select %s r) i) 0) (= (select (select %s r) i) 0)) :pattern ((select (select %s r) i))))", ks, rh, h, h))
		} else {
			c.sc.assumeG(fmt.Sprintf("(forall ((r Int)) (! (=> (= (select %s r) 0) (= (select %s r) 0)) :pattern ((select %s r))))", rh, h, h))
		}
	}
	if strings.HasPrefix(inner, "(Array") {
		ks, _ := innerSort(inner)
		x := "(select (select " + h + " r) i)"
		f := allocGuard(l, c.leafFact(l, x, c.entryTop), c.entryTop)
		if f != "true" {
			c.sc.assumeG(fmt.Sprintf("(forall ((r Int) (i %s)) (! %s :pattern (%s)))", ks, f, x))
		}
	} else {
		x := "(select " + h + " r)"
		f := allocGuard(l, c.leafFact(l, x, c.entryTop), c.entryTop)
		if f != "true" {
			c.sc.assumeG(fmt.Sprintf("(forall ((r Int)) (! %s :pattern (%s)))", f, x))
		}
	}
}

func (c *Ctx) heapSet(st *State, key, sort string, t T) {
	c.heapSort[key] = sort
	st.heap[key] = c.sc.def("H."+smtSym(key), sort, t)
}

// ---- leaf-level facts ----

// allocGuard: reference-valued cells are constrained only for allocated objects
// (r <= top). Cells of objects that do not exist yet are arbitrary, so a
// callee's postcondition about the fields of a fresh object it returns cannot
// contradict what is assumed about the heap before the call.
func allocGuard(l Leaf, f T, top T) T {
	switch l.Kind {
	case lkRef, lkSlRef, lkIfRef:
		if top != "" && f != "true" {
			return imp(le("r", top), f)
		}
	}
	return f
}

// leafFact returns the type-invariant fact for one leaf term.
func (c *Ctx) leafFact(l Leaf, x T, top T) T {
	switch l.Kind {
	case lkInt:
		lo, hi, ok := intRange(l.Typ)
		if ok {
			return inRange(numBig(lo), x, numBig(hi))
		}
	case lkStr:
		return and(ge(app("slen", x), "0"), lt(app("slen", x), maxLenTerm))
	case lkRef, lkSlRef, lkIfRef:
		if top != "" {
			return le(x, top)
		}
	case lkSlOff:
		return ge(x, "0")
	case lkSlLen:
		return and(ge(x, "0"), lt(x, maxLenTerm))
	case lkSlCap:
		return and(ge(x, "0"), lt(x, maxLenTerm))
	case lkIfTag:
		return ge(x, "0")
	}
	return "true"
}

const maxLenTerm = "2147483648"

// valFacts: type invariants of a whole value (ranges, slice well-formedness,
// nil interface has nil payload).
func (c *Ctx) valFacts(v Val, top T) T {
	ls := leavesOf(v.Typ)
	var fs []T
	for i, l := range ls {
		fs = append(fs, c.leafFact(l, v.L[i], top))
		if l.Kind == lkSlLen {
			// ls[i-2..i+1] = ref, off, len, cap
			ref, off, ln, cp := v.L[i-2], v.L[i-1], v.L[i], v.L[i+1]
			fs = append(fs, le(ln, cp), imp(eq(ref, "0"), and(eq(ln, "0"), eq(cp, "0"), eq(off, "0"))), ge(ref, "0"))
			_ = off
		}
		if l.Kind == lkIfTag {
			fs = append(fs, imp(eq(v.L[i], "0"), eq(v.L[i+1], "0")))
		}
	}
	return and(fs...)
}

// freshVal makes a value of type t out of fresh constants and assumes its type
// invariants.
func (c *Ctx) freshVal(prefix string, t types.Type, top T) Val {
	ls := leavesOf(t)
	v := Val{Typ: t, L: make([]T, len(ls))}
	for i, l := range ls {
		v.L[i] = c.sc.fresh(prefix+l.Suffix, l.Sort)
	}
	c.sc.assume(c.valFacts(v, top))
	return v
}

// nameVal gives names to the leaves of a value (keeps formulas linear).
func (c *Ctx) nameVal(prefix string, v Val) Val {
	ls := leavesOf(v.Typ)
	out := Val{Typ: v.Typ, L: make([]T, len(v.L))}
	for i := range v.L {
		out.L[i] = c.sc.def(prefix+ls[i].Suffix, ls[i].Sort, v.L[i])
	}
	return out
}

// ---- object (struct) access ----

// nestRef is the pseudo-reference of a struct-typed field embedded by value in
// the object at ref.
func (c *Ctx) nestRef(structT types.Type, field string, ref T) T {
	fn := "nest." + smtSym(typeKey(structT)+"."+field)
	c.sc.declareFun(fn, []string{sInt}, sInt)
	c.sc.declareFun(fn+".inv", []string{sInt}, sInt)
	t := app(fn, ref)
	id := c.pseudoKind(fn)
	c.declRoot()
	c.onceFact("nest:"+t, and(lt(t, "0"), eq(app(fn+".inv", t), ref), eq(app("pseudokind", t), num(int64(id))),
		eq(app("rootof", t), ite(gt(ref, "0"), ref, app("rootof", ref)))))
	return t
}

// elemRef is the pseudo-reference of a struct-typed slice/array element.
func (c *Ctx) elemRef(elemT types.Type, ref, idx T) T {
	fn := "elemref." + smtSym(typeKey(elemT))
	c.sc.declareFun(fn, []string{sInt, sInt}, sInt)
	c.sc.declareFun(fn+".inv1", []string{sInt}, sInt)
	c.sc.declareFun(fn+".inv2", []string{sInt}, sInt)
	t := app(fn, ref, idx)
	id := c.pseudoKind(fn)
	c.declRoot()
	c.onceFact("elemref:"+t, and(lt(t, "0"), eq(app(fn+".inv1", t), ref), eq(app(fn+".inv2", t), idx), eq(app("pseudokind", t), num(int64(id))),
		eq(app("rootof", t), ite(gt(ref, "0"), ref, app("rootof", ref)))))
	return t
}

func (c *Ctx) pseudoKind(fn string) int {
	c.sc.declareFun("pseudokind", []string{sInt}, sInt)
	if id, ok := c.pseudoKinds[fn]; ok {
		return id
	}
	id := len(c.pseudoKinds) + 1
	c.pseudoKinds[fn] = id
	return id
}

func (c *Ctx) onceFact(key string, fact T) {
	if c.factsDone[key] {
		return
	}
	c.factsDone[key] = true
	c.sc.assumeG(fact)
}

// loadStruct reads the struct value of type t living at object ref.
func (c *Ctx) loadStruct(st *State, t types.Type, ref T) Val {
	s := t.Underlying().(*types.Struct)
	out := Val{Typ: t}
	for i := 0; i < s.NumFields(); i++ {
		f := s.Field(i)
		out.L = append(out.L, c.loadField(st, t, f, ref).L...)
	}
	return out
}

func (c *Ctx) loadField(st *State, structT types.Type, f *types.Var, ref T) Val {
	if isStructType(f.Type()) {
		return c.loadStruct(st, f.Type(), c.nestRef(structT, f.Name(), ref))
	}
	ls := leavesOf(f.Type())
	v := Val{Typ: f.Type(), L: make([]T, len(ls))}
	for i, l := range ls {
		key := fieldKey(structT, f.Name(), l.Suffix)
		c.noteRef(key, arr(sInt, l.Sort), l)
		v.L[i] = sel(c.heapGet(st, key, arr(sInt, l.Sort)), ref)
	}
	return v
}

func (c *Ctx) storeStruct(st *State, t types.Type, ref T, v Val) {
	s := t.Underlying().(*types.Struct)
	for i := 0; i < s.NumFields(); i++ {
		lo, hi := fieldRange(t, i)
		c.storeField(st, t, s.Field(i), ref, Val{Typ: s.Field(i).Type(), L: v.L[lo:hi]})
	}
}

func (c *Ctx) storeField(st *State, structT types.Type, f *types.Var, ref T, v Val) {
	if isStructType(f.Type()) {
		c.storeStruct(st, f.Type(), c.nestRef(structT, f.Name(), ref), v)
		return
	}
	ls := leavesOf(f.Type())
	for i, l := range ls {
		key := fieldKey(structT, f.Name(), l.Suffix)
		srt := arr(sInt, l.Sort)
		c.heapSet(st, key, srt, sto(c.heapGet(st, key, srt), ref, v.L[i]))
	}
}

// ---- elements of slices / array regions ----

func (c *Ctx) loadElem(st *State, elemT types.Type, ref, idx T) Val {
	if isStructType(elemT) {
		return c.loadStruct(st, elemT, c.elemRef(elemT, ref, idx))
	}
	ls := leavesOf(elemT)
	v := Val{Typ: elemT, L: make([]T, len(ls))}
	for i, l := range ls {
		key := elemKey(elemT, l.Suffix)
		c.noteRef(key, arr(sInt, arr(sInt, l.Sort)), l)
		v.L[i] = sel(sel(c.heapGet(st, key, arr(sInt, arr(sInt, l.Sort))), ref), idx)
	}
	return v
}

func (c *Ctx) storeElem(st *State, elemT types.Type, ref, idx T, v Val) {
	if isStructType(elemT) {
		c.storeStruct(st, elemT, c.elemRef(elemT, ref, idx), v)
		return
	}
	ls := leavesOf(elemT)
	for i, l := range ls {
		key := elemKey(elemT, l.Suffix)
		srt := arr(sInt, arr(sInt, l.Sort))
		h := c.heapGet(st, key, srt)
		c.heapSet(st, key, srt, sto(h, ref, sto(sel(h, ref), idx, v.L[i])))
	}
}

// elemArrays returns, per leaf of elemT, the inner array (Int -> leaf) of the
// backing store ref. Only for non-struct element types.
func (c *Ctx) elemArray(st *State, elemT types.Type, leaf int, ref T) T {
	l := leavesOf(elemT)[leaf]
	key := elemKey(elemT, l.Suffix)
	return sel(c.heapGet(st, key, arr(sInt, arr(sInt, l.Sort))), ref)
}

func (c *Ctx) setElemArray(st *State, elemT types.Type, leaf int, ref T, a T) {
	l := leavesOf(elemT)[leaf]
	key := elemKey(elemT, l.Suffix)
	srt := arr(sInt, arr(sInt, l.Sort))
	c.heapSet(st, key, srt, sto(c.heapGet(st, key, srt), ref, a))
}

// ---- boxes (pointers to non-struct values) ----

func (c *Ctx) loadBox(st *State, t types.Type, ref T) Val {
	if isStructType(t) {
		return c.loadStruct(st, t, ref)
	}
	ls := leavesOf(t)
	v := Val{Typ: t, L: make([]T, len(ls))}
	for i, l := range ls {
		key := boxKey(t, l.Suffix)
		c.noteRef(key, arr(sInt, l.Sort), l)
		v.L[i] = sel(c.heapGet(st, key, arr(sInt, l.Sort)), ref)
	}
	return v
}

func (c *Ctx) storeBox(st *State, t types.Type, ref T, v Val) {
	if isStructType(t) {
		c.storeStruct(st, t, ref, v)
		return
	}
	ls := leavesOf(t)
	for i, l := range ls {
		key := boxKey(t, l.Suffix)
		srt := arr(sInt, l.Sort)
		c.heapSet(st, key, srt, sto(c.heapGet(st, key, srt), ref, v.L[i]))
	}
}

// ---- maps ----

func (c *Ctx) mapDom(st *State, m *types.Map, ref T) T {
	return sel(c.heapGet(st, mapDomKey(m), arr(sInt, arr(keySortOfMap(m), sBool))), ref)
}

func (c *Ctx) mapHas(st *State, m *types.Map, ref, k T) T {
	return sel(c.mapDom(st, m, ref), k)
}

func (c *Ctx) mapGet(st *State, m *types.Map, ref, k T) Val {
	if isStructType(m.Elem()) {
		panic(unsupported("map with struct values"))
	}
	ls := leavesOf(m.Elem())
	v := Val{Typ: m.Elem(), L: make([]T, len(ls))}
	ks := keySortOfMap(m)
	for i, l := range ls {
		key := mapValKey(m, l.Suffix)
		c.noteRef(key, arr(sInt, arr(ks, l.Sort)), l)
		v.L[i] = sel(sel(c.heapGet(st, key, arr(sInt, arr(ks, l.Sort))), ref), k)
	}
	return v
}

// msumFact: generator-instantiated update lemma for the per-map byte sum
// msum(dom, val) = sum over k in dom of slen(val[k]) (string-valued maps).
func (c *Ctx) msumApplies(m *types.Map) bool {
	return keySortOfMap(m) == sStr && isString(m.Elem())
}

func (c *Ctx) declMsum() {
	c.sc.declareFun("msum", []string{arr(sStr, sBool), arr(sStr, sStr)}, sInt)
}

func (c *Ctx) msumOf(st *State, m *types.Map, ref T) T {
	c.declMsum()
	d := c.mapDom(st, m, ref)
	v := sel(c.heapGet(st, mapValKey(m, ""), arr(sInt, arr(sStr, sStr))), ref)
	t := app("msum", d, v)
	c.onceFact("msum>=0:"+t, ge(t, "0"))
	return t
}

func (c *Ctx) mapSet(st *State, m *types.Map, ref, k T, v Val) {
	if c.msumApplies(m) {
		c.declMsum()
		d0 := c.sc.def("md0", arr(sStr, sBool), c.mapDom(st, m, ref))
		v0 := c.sc.def("mv0", arr(sStr, sStr), sel(c.heapGet(st, mapValKey(m, ""), arr(sInt, arr(sStr, sStr))), ref))
		m0 := app("msum", d0, v0)
		m1 := app("msum", sto(d0, k, "true"), sto(v0, k, v.L[0]))
		c.sc.assume(and(eq(m1, add(sub(m0, ite(sel(d0, k), app("slen", sel(v0, k)), "0")), app("slen", v.L[0]))), ge(m0, "0"), ge(m1, "0"),
			ge(m0, ite(sel(d0, k), app("slen", sel(v0, k)), "0")), ge(m1, app("slen", v.L[0]))))
	}
	ks := keySortOfMap(m)
	dk := mapDomKey(m)
	ds := arr(sInt, arr(ks, sBool))
	d := c.heapGet(st, dk, ds)
	c.heapSet(st, dk, ds, sto(d, ref, sto(sel(d, ref), k, "true")))
	ls := leavesOf(m.Elem())
	for i, l := range ls {
		key := mapValKey(m, l.Suffix)
		srt := arr(sInt, arr(ks, l.Sort))
		h := c.heapGet(st, key, srt)
		c.heapSet(st, key, srt, sto(h, ref, sto(sel(h, ref), k, v.L[i])))
	}
}

func (c *Ctx) msumDeleteFact(st *State, m *types.Map, ref, k T) {
	if !c.msumApplies(m) {
		return
	}
	c.declMsum()
	d0 := c.sc.def("md0", arr(sStr, sBool), c.mapDom(st, m, ref))
	v0 := c.sc.def("mv0", arr(sStr, sStr), sel(c.heapGet(st, mapValKey(m, ""), arr(sInt, arr(sStr, sStr))), ref))
	m0 := app("msum", d0, v0)
	m1 := app("msum", sto(d0, k, "false"), v0)
	c.sc.assume(and(eq(m1, sub(m0, ite(sel(d0, k), app("slen", sel(v0, k)), "0"))), ge(m0, "0"), ge(m1, "0")))
}

func (c *Ctx) mapDelete(st *State, m *types.Map, ref, k T) {
	c.msumDeleteFact(st, m, ref, k)
	ks := keySortOfMap(m)
	dk := mapDomKey(m)
	ds := arr(sInt, arr(ks, sBool))
	d := c.heapGet(st, dk, ds)
	c.heapSet(st, dk, ds, sto(d, ref, sto(sel(d, ref), k, "false")))
}

// ---- allocation ----

func (c *Ctx) allocRef(st *State, what string) T {
	r := c.sc.def("new."+what, sInt, add(st.top, "1"))
	st.top = r
	return r
}

// ---- merging at control-flow joins ----

type edgeIn struct {
	cond T
	st   *State
}

func (c *Ctx) merge(ins []edgeIn) *State {
	if len(ins) == 1 {
		return ins[0].st.clone()
	}
	out := newState()
	// boxes private on every incoming path
	for _, pb := range ins[0].st.private {
		all := true
		for _, in := range ins[1:] {
			found := false
			for _, q := range in.st.private {
				if q.ref == pb.ref {
					found = true
				}
			}
			all = all && found
		}
		if all {
			out.private = append(out.private, pb)
		}
	}
	// locals
	lkeys := map[localKey]bool{}
	for _, in := range ins {
		for k := range in.st.locals {
			lkeys[k] = true
		}
	}
	for _, k := range sortedLocalKeys(lkeys) {
		var vals []Val
		ok := true
		for _, in := range ins {
			v, has := in.st.locals[k]
			if !has {
				ok = false
				break
			}
			vals = append(vals, v)
		}
		if !ok {
			continue // not defined on every path: dead here (SSA dominance)
		}
		out.locals[k] = c.mergeVals(fmt.Sprintf("m.%s", localName(k.alloc)), ins, vals)
	}
	// heap
	hkeys := map[string]bool{}
	for _, in := range ins {
		for k := range in.st.heap {
			hkeys[k] = true
		}
	}
	var hk []string
	for k := range hkeys {
		hk = append(hk, k)
	}
	sort.Strings(hk)
	for _, k := range hk {
		srt := c.heapSort[k]
		var ts []T
		for _, in := range ins {
			ts = append(ts, c.heapGet(in.st, k, srt))
		}
		out.heap[k] = c.mergeTerms("H."+smtSym(k), srt, ins, ts)
	}
	for _, in := range ins {
		if in.st.epoch > out.epoch {
			out.epoch = in.st.epoch
			out.ghostEpoch = in.st.ghostEpoch
			out.chain = append([]epochStep(nil), in.st.chain...)
		}
	}
	// keys untouched in every incoming state but living in different epochs
	{
		same := true
		for _, in := range ins {
			if in.st.epoch != ins[0].st.epoch {
				same = false
			}
		}
		if !same {
			var all []string
			for k := range c.heapSort {
				all = append(all, k)
			}
			sort.Strings(all)
			for _, k := range all {
				if _, done := out.heap[k]; done {
					continue
				}
				srt := c.heapSort[k]
				var ts []T
				for _, in := range ins {
					ts = append(ts, c.heapGet(in.st, k, srt))
				}
				out.heap[k] = c.mergeTerms("H."+smtSym(k), srt, ins, ts)
			}
		}
	}
	// top
	var tops []T
	for _, in := range ins {
		tops = append(tops, in.st.top)
	}
	out.top = c.mergeTerms("top", sInt, ins, tops)
	// iterators
	ikeys := map[iterKey]bool{}
	for _, in := range ins {
		for k := range in.st.iters {
			ikeys[k] = true
		}
	}
	for _, k := range sortedIterKeys(ikeys) {
		var ts []T
		ok := true
		for _, in := range ins {
			t, has := in.st.iters[k]
			if !has {
				ok = false
				break
			}
			ts = append(ts, t)
		}
		if ok {
			out.iters[k] = c.mergeTerms("iter", c.iterSort[k], ins, ts)
		}
	}
	gkeys := map[string]bool{}
	for _, in := range ins {
		for k := range in.st.ghost {
			gkeys[k] = true
		}
	}
	for _, in := range ins {
		if in.st.ghostEpoch != ins[0].st.ghostEpoch {
			// counters untouched on every path but living in different epochs
			for k := range c.ghostNames {
				gkeys[k] = true
			}
			break
		}
	}
	for _, k := range sortedStrKeys(gkeys) {
		var ts []T
		for _, in := range ins {
			ts = append(ts, c.ghostGet(in.st, k))
		}
		out.ghost[k] = c.mergeTerms("ghost."+k, sInt, ins, ts)
	}
	// defers: must agree structurally
	out.defers = ins[0].st.defers
	for _, in := range ins[1:] {
		if len(in.st.defers) != len(out.defers) {
			panic(unsupported("defer stacks differ at join"))
		}
		for i := range out.defers {
			if in.st.defers[i].instr != out.defers[i].instr {
				panic(unsupported("defer stacks differ at join"))
			}
		}
	}
	if len(out.defers) > 0 {
		nd := make([]deferRec, len(out.defers))
		for i := range out.defers {
			nd[i] = out.defers[i]
			nd[i].args = nil
			for a := range out.defers[i].args {
				var vals []Val
				for _, in := range ins {
					vals = append(vals, in.st.defers[i].args[a])
				}
				nd[i].args = append(nd[i].args, c.mergeVals("defarg", ins, vals))
			}
			if out.defers[i].recv != nil {
				var vals []Val
				for _, in := range ins {
					vals = append(vals, *in.st.defers[i].recv)
				}
				r := c.mergeVals("defrecv", ins, vals)
				nd[i].recv = &r
			}
		}
		out.defers = nd
	}
	return out
}

func (c *Ctx) mergeTerms(prefix, srt string, ins []edgeIn, ts []T) T {
	same := true
	for _, t := range ts[1:] {
		if t != ts[0] {
			same = false
		}
	}
	if same {
		return ts[0]
	}
	r := ts[len(ts)-1]
	for i := len(ts) - 2; i >= 0; i-- {
		r = ite(ins[i].cond, ts[i], r)
	}
	return c.sc.def(prefix, srt, r)
}

func (c *Ctx) mergeVals(prefix string, ins []edgeIn, vals []Val) Val {
	ls := leavesOf(vals[0].Typ)
	out := Val{Typ: vals[0].Typ, L: make([]T, len(ls))}
	for i, l := range ls {
		var ts []T
		for _, v := range vals {
			ts = append(ts, v.L[i])
		}
		out.L[i] = c.mergeTerms(prefix+l.Suffix, l.Sort, ins, ts)
	}
	return out
}

func localName(a *ssa.Alloc) string {
	if a.Comment != "" {
		return a.Comment
	}
	return a.Name()
}

func (c *Ctx) ghostInit(k string) T {
	n := "G0." + smtSym(k)
	c.sc.declare(n, sInt)
	return n
}

func sortedLocalKeys(m map[localKey]bool) []localKey {
	var ks []localKey
	for k := range m {
		ks = append(ks, k)
	}
	sort.Slice(ks, func(i, j int) bool {
		if ks[i].frame != ks[j].frame {
			return ks[i].frame < ks[j].frame
		}
		if ks[i].alloc.Pos() != ks[j].alloc.Pos() {
			return ks[i].alloc.Pos() < ks[j].alloc.Pos()
		}
		return ks[i].alloc.Name() < ks[j].alloc.Name()
	})
	return ks
}

func sortedIterKeys(m map[iterKey]bool) []iterKey {
	var ks []iterKey
	for k := range m {
		ks = append(ks, k)
	}
	sort.Slice(ks, func(i, j int) bool {
		if ks[i].frame != ks[j].frame {
			return ks[i].frame < ks[j].frame
		}
		return ks[i].rng.Name() < ks[j].rng.Name()
	})
	return ks
}

func sortedStrKeys(m map[string]bool) []string {
	var ks []string
	for k := range m {
		ks = append(ks, k)
	}
	sort.Strings(ks)
	return ks
}
