package main

// Forward symbolic execution of go/ssa (naive form) into verification
// conditions. One pass over the acyclic block graph obtained by cutting loops
// at their headers; joins are merged with ite-terms over edge conditions.

import (
	"fmt"
	"go/constant"
	"go/token"
	"go/types"
	"sort"
	"strings"

	"golang.org/x/tools/go/ssa"
)

type Obligation struct {
	Fn     string   `json:"function"`
	Name   string   `json:"name"`
	Kind   string   `json:"kind"`
	Tags   []string `json:"tags,omitempty"`
	Pos    string   `json:"pos,omitempty"`
	Text   string   `json:"text,omitempty"`
	mark   int
	cond   T   // satisfiable <=> obligation violated
	parts  []T // when set: one query per part (e.g. per return path); all must be unsat
	sc     *Script
	Result string  `json:"result"` // discharged | failed | unknown
	Solver string  `json:"solver,omitempty"`
	Secs   float64 `json:"secs"`
	Model  string  `json:"-"`
	Output string  `json:"-"`
	// known-finding handling
	Canary       bool   `json:"canary,omitempty"`
	Finding      string `json:"finding,omitempty"`
	Smoke        bool   `json:"smoke,omitempty"`
	getvals      []string
	replay       *replayInfo
	Info         bool // reachability probe of one return path: reported, never a failure
	batch        bool
	noProvedFrom int        // batch query: ignore proved-goal assumptions from this line on (-1: keep all)
	hide         [][2]int   // script ranges of other paths (not part of this query)
	partHide     [][][2]int // per part
}

type Ctx struct {
	noHide      bool // obligations over the merged exit state: no path is hidden
	P           *Program
	sc          *Script
	heapSort    map[string]string
	pseudoKinds map[string]int
	factsDone   map[string]bool
	iterSort    map[iterKey]string
	lits        map[string]string
	ids         int
	depth       int
	obls        []*Obligation
	nframes     int
	prop        string
	fnKey       string
	entry       *State
	entryTop    T
	trusted     map[string]bool
	closures    map[T]*closure
	inlineDepth int
	safetyTags  []string
	safetyOn    bool
	findings    []*Finding
	topFrame    *Frame
	callOrd     map[string]int
	notes       []string
	oblNames    map[string]int
	sentinels   []T
	loopInfos   map[string]*loopInfo
	replay      *replayInfo
	keyLeaf     map[string]Leaf
	witnesses   map[string]T
	epochTop    map[int]T
	nepochs     int
	ghostNames  map[string]bool
}

type closure struct {
	fn       *ssa.Function
	bindings []Val
	bptrs    []*Ptr
	recv     *Val // bound method receiver
}

type ptrKind int

const (
	pLocal ptrKind = iota
	pField
	pElem
	pBox
	pStruct
	pGlobal
)

type Ptr struct {
	kind    ptrKind
	key     localKey
	ref     T
	structT types.Type
	field   *types.Var
	idx     T
	typ     types.Type // pointee type
	glob    *ssa.Global
	sub     []int // leaf sub-range path for flattened arrays inside fields (unused)
}

type Frame struct {
	id        int
	fn        *ssa.Function
	env       map[ssa.Value]Val
	ptrs      map[ssa.Value]*Ptr
	ct        *Contract
	params    map[string]Val // entry values of formals (for specs)
	isTop     bool
	curIns    []edgeInB
	pkg       *types.Package
	loopOrd   map[*ssa.BasicBlock]int
	freeVars  map[*ssa.FreeVar]int
	cl        *closure
	curCall   *ssa.CallCommon
	curBlock  *ssa.BasicBlock
	innerLoop map[*ssa.BasicBlock]*ssa.BasicBlock // block -> innermost loop header
}

type edgeInB struct {
	from *ssa.BasicBlock
	cond T
	st   *State
}

func newCtx(P *Program, prop string) *Ctx {
	c := &Ctx{P: P, sc: newScript(), heapSort: map[string]string{}, pseudoKinds: map[string]int{}, factsDone: map[string]bool{},
		iterSort: map[iterKey]string{}, lits: map[string]string{}, prop: prop, trusted: map[string]bool{}, closures: map[T]*closure{},
		callOrd: map[string]int{}, oblNames: map[string]int{}, loopInfos: map[string]*loopInfo{}, keyLeaf: map[string]Leaf{}, witnesses: map[string]T{}, epochTop: map[int]T{}, ghostNames: map[string]bool{}}
	c.sc.raw(prelude)
	return c
}

func (c *Ctx) trust(s string) { c.trusted[s] = true }

// hideNow: the script ranges that are not part of a query created at the current
// position. Obligations over the merged exit state of a function (frame, exit
// smoke) depend on every path: nothing is hidden for them.
func (c *Ctx) hideNow() [][2]int {
	if c.noHide {
		return nil
	}
	return c.sc.hideFor(c.sc.mark() - 1)
}

func (c *Ctx) oblige(kind, name string, tags []string, reach, goal T, pos token.Pos, text string) *Obligation {
	if goal == "true" {
		return nil
	}
	// unique, position-independent names
	full := name
	c.oblNames[full]++
	if n := c.oblNames[full]; n > 1 {
		full = fmt.Sprintf("%s~%d", name, n)
	}
	// known findings: split the obligation along the finding's `when`
	// condition (evaluated over the function's entry state): the canary under
	// `when` is expected to fail, the rest must be discharged.
	oname := full
	for _, f := range c.findings {
		if f.Function == c.fnKey && f.Obligation == full {
			w, err := parseSpecExpr(f.When)
			if err != nil {
				panic(specErr{"known finding " + f.ID + ": " + err.Error()})
			}
			env := c.entryEnv()
			env.at = "known finding " + f.ID
			wt := env.evalBool(w)
			o := &Obligation{Fn: c.fnKey, Name: full + "|finding:" + f.ID, Kind: kind, Tags: tags, Pos: c.P.pos(pos), Text: text,
				mark: c.sc.mark(), cond: and(reach, wt, not(goal)), sc: c.sc, Canary: true, Finding: f.ID, replay: c.replay, hide: c.hideNow()}
			c.obls = append(c.obls, o)
			reach = and(reach, not(wt))
			oname = oname + "|not:" + f.ID
		}
	}
	o := &Obligation{Fn: c.fnKey, Name: oname, Kind: kind, Tags: tags, Pos: c.P.pos(pos), Text: text,
		mark: c.sc.mark(), cond: and(reach, not(goal)), sc: c.sc, replay: c.replay, hide: c.hideNow()}
	c.obls = append(c.obls, o)
	// proved (or reported) once: later code may rely on it
	c.sc.assume(imp(reach, goal))
	return o
}

// obligeParts: one named obligation decided by several queries (one per
// return path); reaches[i] /\ not goals[i] must all be unsatisfiable.
func (c *Ctx) obligeParts(kind, name string, tags []string, reaches, goals []T, pos token.Pos, text string, positions ...int) {
	full := name
	c.oblNames[full]++
	if n := c.oblNames[full]; n > 1 {
		full = fmt.Sprintf("%s~%d", name, n)
	}
	oname := full
	wts := make([]T, 0)
	for _, f := range c.findings {
		if f.Function == c.fnKey && f.Obligation == full {
			w, err := parseSpecExpr(f.When)
			if err != nil {
				panic(specErr{"known finding " + f.ID + ": " + err.Error()})
			}
			env := c.entryEnv()
			env.at = "known finding " + f.ID
			wt := env.evalBool(w)
			o := &Obligation{Fn: c.fnKey, Name: full + "|finding:" + f.ID, Kind: kind, Tags: tags, Pos: c.P.pos(pos), Text: text,
				sc: c.sc, Canary: true, Finding: f.ID, replay: c.replay}
			for i := range goals {
				o.parts = append(o.parts, and(reaches[i], wt, not(goals[i])))
				if i < len(positions) {
					o.partHide = append(o.partHide, c.sc.hideFor(positions[i]))
				}
			}
			o.mark = c.sc.mark()
			c.obls = append(c.obls, o)
			wts = append(wts, wt)
			oname = oname + "|not:" + f.ID
		}
	}
	o := &Obligation{Fn: c.fnKey, Name: oname, Kind: kind, Tags: tags, Pos: c.P.pos(pos), Text: text, sc: c.sc, replay: c.replay}
	trivial := true
	for i := range goals {
		r := reaches[i]
		for _, wt := range wts {
			r = and(r, not(wt))
		}
		if goals[i] != "true" {
			trivial = false
		}
		o.parts = append(o.parts, and(r, not(goals[i])))
		if i < len(positions) {
			o.partHide = append(o.partHide, c.sc.hideFor(positions[i]))
		}
	}
	if trivial {
		return
	}
	o.mark = c.sc.mark()
	c.obls = append(c.obls, o)
	for i := range goals {
		c.sc.assumeProved(imp(reaches[i], goals[i]))
	}
}

// entryEnv: specification environment over the entry state of the function
// being verified.
func (c *Ctx) entryEnv() *Env {
	fr := c.topFrame
	e := &Env{c: c, pkg: fr.pkg, vars: map[string]Val{}, st: c.entry, old: c.entry, oldTop: c.entryTop}
	for k, v := range fr.params {
		e.vars[k] = v
	}
	return e
}

// safety obligation (automatic no-panic check)
func (c *Ctx) safe(what string, reach, goal T, pos token.Pos) {
	if !c.safetyOn || goal == "true" {
		if goal != "true" {
			// still assume: execution continues only if no panic happened
			c.sc.assume(imp(reach, goal))
		}
		return
	}
	c.oblige("safety", "safety:"+what, c.safetyTags, reach, goal, pos, "")
}

func (fr *Frame) localByName(name string, e *Env) *ssa.Alloc {
	var cands []*ssa.Alloc
	for _, b := range fr.fn.Blocks {
		for _, ins := range b.Instrs {
			if a, ok := ins.(*ssa.Alloc); ok && a.Comment == name {
				cands = append(cands, a)
			}
		}
	}
	if len(cands) == 0 {
		return nil
	}
	// prefer one that currently has a value in the state
	var live []*ssa.Alloc
	for _, a := range cands {
		if _, ok := e.st.locals[localKey{fr.id, a}]; ok {
			live = append(live, a)
		} else if _, ok := fr.env[a]; ok {
			live = append(live, a)
		}
	}
	if len(live) >= 1 {
		return live[len(live)-1]
	}
	return nil
}

// readAlloc reads the current value of a source variable.
func (c *Ctx) readAlloc(fr *Frame, st *State, a *ssa.Alloc) Val {
	if v, ok := st.locals[localKey{fr.id, a}]; ok {
		return v
	}
	t := deref(a.Type())
	ref, ok := fr.env[a]
	if !ok {
		panic(specErr{"variable " + a.Comment + " is not live here"})
	}
	if isStructType(t) {
		// struct variables are heap objects: expose as pointer for field access
		return Val{Typ: a.Type(), L: ref.L}
	}
	if at, ok := t.Underlying().(*types.Array); ok {
		_ = at
		return Val{Typ: a.Type(), L: ref.L}
	}
	return c.loadBox(st, t, ref.one())
}

// ---- function execution ----

type retEdge struct {
	cond T
	st   *State
	res  Val
	pos  int // script position when the edge was recorded
	src  token.Pos
}

func (c *Ctx) newFrame(fn *ssa.Function) *Frame {
	c.nframes++
	fr := &Frame{id: c.nframes, fn: fn, env: map[ssa.Value]Val{}, ptrs: map[ssa.Value]*Ptr{}, params: map[string]Val{}}
	if fn.Pkg != nil {
		fr.pkg = fn.Pkg.Pkg
	} else if fn.Parent() != nil && fn.Parent().Pkg != nil {
		fr.pkg = fn.Parent().Pkg.Pkg
	}
	return fr
}

func backEdge(from, to *ssa.BasicBlock) bool { return to.Dominates(from) }

func topoOrder(fn *ssa.Function) []*ssa.BasicBlock {
	seen := map[*ssa.BasicBlock]bool{}
	var post []*ssa.BasicBlock
	var dfs func(b *ssa.BasicBlock)
	dfs = func(b *ssa.BasicBlock) {
		seen[b] = true
		for _, s := range b.Succs {
			if !seen[s] && !backEdge(b, s) {
				dfs(s)
			}
		}
		post = append(post, b)
	}
	dfs(fn.Blocks[0])
	for i, j := 0, len(post)-1; i < j; i, j = i+1, j-1 {
		post[i], post[j] = post[j], post[i]
	}
	return post
}

func loopHeaders(fn *ssa.Function) []*ssa.BasicBlock {
	var hs []*ssa.BasicBlock
	for _, b := range fn.Blocks {
		for _, p := range b.Preds {
			if backEdge(p, b) {
				hs = append(hs, b)
				break
			}
		}
	}
	sort.Slice(hs, func(i, j int) bool { return hs[i].Index < hs[j].Index })
	return hs
}

func loopBody(h *ssa.BasicBlock) map[*ssa.BasicBlock]bool {
	body := map[*ssa.BasicBlock]bool{h: true}
	var stack []*ssa.BasicBlock
	for _, p := range h.Preds {
		if backEdge(p, h) && !body[p] {
			body[p] = true
			stack = append(stack, p)
		}
	}
	for len(stack) > 0 {
		b := stack[len(stack)-1]
		stack = stack[:len(stack)-1]
		for _, p := range b.Preds {
			if !body[p] {
				body[p] = true
				stack = append(stack, p)
			}
		}
	}
	return body
}

// execBody runs fr.fn from state st under path condition reach and returns the
// merged exit state, the exit condition and the result tuple.
func (c *Ctx) execBody(fr *Frame, st *State, reach T) (*State, T, Val) {
	out, r, v, _ := c.execBodyEdges(fr, st, reach)
	return out, r, v
}

func (c *Ctx) execBodyEdges(fr *Frame, st *State, reach T) (*State, T, Val, []retEdge) {
	fn := fr.fn
	if len(fn.Blocks) == 0 {
		panic(unsupported("function without body: " + funcKey(fn)))
	}
	ins := map[*ssa.BasicBlock][]edgeInB{}
	fr.loopOrd = map[*ssa.BasicBlock]int{}
	fr.innerLoop = map[*ssa.BasicBlock]*ssa.BasicBlock{}
	bodySize := map[*ssa.BasicBlock]int{}
	for i, h := range loopHeaders(fn) {
		fr.loopOrd[h] = i + 1
		body := loopBody(h)
		for b := range body {
			if cur, ok := fr.innerLoop[b]; !ok || len(body) < bodySize[cur] {
				fr.innerLoop[b] = h
			}
		}
		bodySize[h] = len(body)
	}
	var rets []retEdge
	type backRec struct {
		st   *State
		cond T
		pos  int
	}
	backs := map[*ssa.BasicBlock][]backRec{}
	// region reachable from b along forward edges
	regionOf := func(b *ssa.BasicBlock) map[*ssa.BasicBlock]bool {
		reg := map[*ssa.BasicBlock]bool{b: true}
		stack := []*ssa.BasicBlock{b}
		for len(stack) > 0 {
			x := stack[len(stack)-1]
			stack = stack[:len(stack)-1]
			for _, s := range x.Succs {
				if !backEdge(x, s) && !reg[s] {
					reg[s] = true
					stack = append(stack, s)
				}
			}
		}
		return reg
	}
	var execBlock func(b *ssa.BasicBlock, cur *State, r T, in []edgeInB, split bool)
	emit := func(from, to *ssa.BasicBlock, cond T, st *State, split bool) {
		if cond == "false" {
			return
		}
		if backEdge(from, to) {
			backs[to] = append(backs[to], backRec{st.clone(), cond, c.sc.mark() - 1})
			return
		}
		if split {
			start := c.sc.mark()
			c.sc.raw("; path")
			execBlock(to, st.clone(), cond, []edgeInB{{from, cond, st}}, true)
			c.sc.hidden = append(c.sc.hidden, [2]int{start, c.sc.mark()})
			return
		}
		ins[to] = append(ins[to], edgeInB{from, cond, st})
	}
	execBlock = func(b *ssa.BasicBlock, cur *State, r T, in []edgeInB, split bool) {
		fr.curIns = in
		fr.curBlock = b
		if ord, isLoop := fr.loopOrd[b]; isLoop {
			cur = c.enterLoop(fr, b, ord, cur, r)
		}
		for _, instr := range b.Instrs {
			switch t := instr.(type) {
			case *ssa.If:
				cond := fr.val(c, t.Cond).one()
				cn := c.sc.def(fmt.Sprintf("br.f%d.b%d", fr.id, b.Index), sBool, cond)
				// the two successors see independent copies in split mode
				emit(b, b.Succs[0], and(r, cn), cur, split)
				fr.curBlock = b
				emit(b, b.Succs[1], and(r, not(cn)), cur, split)
			case *ssa.Jump:
				emit(b, b.Succs[0], r, cur, split)
			case *ssa.Return:
				var res Val
				res.Typ = fn.Signature.Results()
				for _, x := range t.Results {
					res.L = append(res.L, fr.val(c, x).L...)
				}
				rets = append(rets, retEdge{r, cur, res, c.sc.mark() - 1, t.Pos()})
			case *ssa.Panic:
				c.safe("panic:"+c.describeValue(t.X), r, "false", t.Pos())
				return
			default:
				c.step(fr, cur, r, instr)
			}
		}
	}
	splitDone := map[*ssa.BasicBlock]bool{}
	blockRange := map[*ssa.BasicBlock][][2]int{}
	ancestors := func(b *ssa.BasicBlock) map[*ssa.BasicBlock]bool {
		anc := map[*ssa.BasicBlock]bool{b: true}
		stack := []*ssa.BasicBlock{b}
		for len(stack) > 0 {
			x := stack[len(stack)-1]
			stack = stack[:len(stack)-1]
			for _, p := range x.Preds {
				if !backEdge(p, x) && !anc[p] {
					anc[p] = true
					stack = append(stack, p)
				}
			}
		}
		return anc
	}
	order := topoOrder(fn)
	for _, b := range order {
		if splitDone[b] {
			continue
		}
		if b == fn.Blocks[0] {
			start := c.sc.mark()
			execBlock(b, st, reach, nil, false)
			blockRange[b] = append(blockRange[b], [2]int{start, c.sc.mark()})
			continue
		}
		in := ins[b]
		if len(in) == 0 {
			continue
		}
		_, isLoop := fr.loopOrd[b]
		_, isRet := b.Instrs[len(b.Instrs)-1].(*ssa.Return)
		_, hasPhi := b.Instrs[0].(*ssa.Phi)
		if !isLoop && !hasPhi && len(in) > 1 {
			if isRet && len(in) <= 16 {
				// tail duplication: a returning block is executed once per
				// incoming edge, so postconditions see unmerged states
				start := c.sc.mark()
				for _, e := range in {
					execBlock(b, e.st.clone(), e.cond, []edgeInB{e}, false)
				}
				blockRange[b] = append(blockRange[b], [2]int{start, c.sc.mark()})
				continue
			}
			if len(in) > 3 {
				// wide join (e.g. after a switch): explore the rest of the body
				// path by path instead of merging many heaps into ite-terms
				reg := regionOf(b)
				ok := len(reg) <= 48
				for x := range reg {
					if _, l := fr.loopOrd[x]; l {
						ok = false
					}
					if _, ph := x.Instrs[0].(*ssa.Phi); ph {
						ok = false
					}
					// every predecessor of a region block (other than b) must be inside the region
					if x != b {
						for _, p := range x.Preds {
							if !reg[p] {
								ok = false
							}
						}
					}
				}
				if ok {
					for x := range reg {
						splitDone[x] = true
					}
					for _, e := range in {
						start := c.sc.mark()
						c.sc.raw("; path")
						// blocks that cannot reach this edge contribute nothing to the path
						anc := ancestors(e.from)
						first := len(c.sc.hideIn)
						for _, x := range order {
							if !anc[x] {
								for _, r := range blockRange[x] {
									c.sc.hideIn = append(c.sc.hideIn, hideRule{r: r, o: [2]int{start, 1 << 60}})
								}
							}
						}
						execBlock(b, e.st.clone(), e.cond, []edgeInB{e}, true)
						for i := first; i < len(c.sc.hideIn); i++ {
							if c.sc.hideIn[i].o[0] == start {
								c.sc.hideIn[i].o[1] = c.sc.mark()
							}
						}
						c.sc.hidden = append(c.sc.hidden, [2]int{start, c.sc.mark()})
					}
					continue
				}
			}
		}
		var es []edgeIn
		var cs []T
		for _, e := range in {
			es = append(es, edgeIn{e.cond, e.st})
			cs = append(cs, e.cond)
		}
		start := c.sc.mark()
		cur := c.merge(es)
		r := c.sc.def(fmt.Sprintf("reach.f%d.b%d", fr.id, b.Index), sBool, or(cs...))
		execBlock(b, cur, r, in, false)
		blockRange[b] = append(blockRange[b], [2]int{start, c.sc.mark()})
	}
	// loop invariants at the back edges: one named obligation per clause, one
	// query per back edge
	for _, h := range loopHeaders(fn) {
		bs := backs[h]
		if len(bs) == 0 {
			continue
		}
		ord := fr.loopOrd[h]
		invs, _ := c.loopClauses(fr, ord)
		fk := funcKey(fn)
		var reaches []T
		var poss []int
		for _, be := range bs {
			reaches = append(reaches, be.cond)
			poss = append(poss, be.pos)
		}
		if ri := rangeIndexOf(h); ri != nil {
			var goals []T
			for _, be := range bs {
				if v, ok := be.st.locals[localKey{fr.id, ri}]; ok {
					goals = append(goals, and(ge(v.one(), num(-1)), lt(v.one(), maxLenTerm), c.rangeBound(fr, h, v.one())))
				} else {
					goals = append(goals, "true")
				}
			}
			c.obligeParts("invariant", fmt.Sprintf("%s:loop%d:preserved:rangeindex", fk, ord), nil, reaches, goals, h.Instrs[0].Pos(), "-1 <= rangeindex < 2^31", poss...)
		}
		for _, cl := range invs {
			var goals []T
			for _, be := range bs {
				env := c.loopEnv(fr, h, be.st)
				goals = append(goals, c.evalClause(env, cl))
			}
			c.obligeParts("invariant", fmt.Sprintf("%s:loop%d:preserved:%s", fk, ord, cl.name()), cl.Tags, reaches, goals, h.Instrs[0].Pos(), cl.Text, poss...)
		}
		if li := c.loopInfos[loopKey(c, fr, h)]; li != nil && fr.ct != nil {
			for _, cl := range fr.ct.Steps {
				if cl.Loop != ord || !cl.inSlice(c.prop) {
					continue
				}
				var goals []T
				for _, be := range bs {
					env := c.loopEnv(fr, h, be.st)
					env.iterHead = li.head
					goals = append(goals, c.evalClause(env, cl))
				}
				c.obligeParts("invariant", fmt.Sprintf("%s:loop%d:step:%s", fk, ord, cl.name()), cl.Tags, reaches, goals, h.Instrs[0].Pos(), cl.Text, poss...)
			}
		}
		if li := c.loopInfos[loopKey(c, fr, h)]; li != nil {
			for _, be := range bs {
				c.frameObligations(fmt.Sprintf("%s:loop%d:frame", fk, ord), li.head, be.st, li.modlocs, be.cond, li.pre.top, h.Instrs[0].Pos())
			}
		}
	}
	if len(rets) == 0 {
		// no normal return (all paths panic)
		return st, "false", zeroVal(fn.Signature.Results()), nil
	}
	var es []edgeIn
	var cs []T
	var vals []Val
	for _, e := range rets {
		es = append(es, edgeIn{e.cond, e.st})
		cs = append(cs, e.cond)
		vals = append(vals, e.res)
	}
	out := c.merge(es)
	res := vals[0]
	if len(vals) > 1 && len(res.L) > 0 {
		res = c.mergeVals(fmt.Sprintf("ret.f%d", fr.id), es, vals)
	}
	return out, c.sc.def(fmt.Sprintf("exit.f%d", fr.id), sBool, or(cs...)), res, rets
}

// ---- loops ----

func (c *Ctx) loopClauses(fr *Frame, ord int) (invs []*Clause, mods []*Clause) {
	if fr.ct == nil {
		return nil, nil
	}
	for _, cl := range fr.ct.Invs {
		if cl.Loop == ord && cl.inSlice(c.prop) {
			invs = append(invs, cl)
		}
	}
	for _, cl := range fr.ct.LMods {
		if cl.Loop == ord {
			mods = append(mods, cl)
		}
	}
	return
}

type loopInfo struct {
	modlocs []ModLoc
	head    *State // state right after havoc+assume (what the body starts from)
	pre     *State // state before havoc (loop entry)
	rng     *iterKey
}

func (c *Ctx) specEnv(fr *Frame, st *State) *Env {
	e := &Env{c: c, pkg: fr.pkg, vars: map[string]Val{}, st: st, old: c.entry, fr: fr, oldTop: c.entryTop}
	for k, v := range fr.params {
		e.vars[k] = v
	}
	return e
}

func (c *Ctx) loopEnv(fr *Frame, h *ssa.BasicBlock, st *State) *Env {
	e := c.specEnv(fr, st)
	// entry values of the formals are reachable through old(x); plain x means
	// the current value of the variable
	e.params = e.vars
	e.vars = map[string]Val{}
	e.old = c.entry
	// range index: number of completed iterations
	for _, ins := range h.Instrs {
		if s, ok := ins.(*ssa.Store); ok {
			if a, ok := s.Addr.(*ssa.Alloc); ok && a.Comment == "rangeindex" {
				if v, ok := st.locals[localKey{fr.id, a}]; ok {
					e.vars["_i"] = intVal(add(v.one(), "1"))
				}
			}
		}
		if n, ok := ins.(*ssa.Next); ok {
			k := iterKey{fr.id, n.Iter}
			e.rng = &k
		}
	}
	e.at = fmt.Sprintf("%s loop %d", funcKey(fr.fn), fr.loopOrd[h])
	if li := c.loopInfos[loopKey(c, fr, h)]; li != nil {
		e.loopPre = li.pre
	} else {
		e.loopPre = st
	}
	return e
}

func loopKey(c *Ctx, fr *Frame, h *ssa.BasicBlock) string {
	return fmt.Sprintf("%d/%d", fr.id, h.Index)
}

// rangeBound: the hidden index never passes the length the loop compares it with
// (index + 1 <= len; the length is computed once, before the loop).
func (c *Ctx) rangeBound(fr *Frame, h *ssa.BasicBlock, idx T) T {
	for _, ins := range h.Instrs {
		if b, ok := ins.(*ssa.BinOp); ok && b.Op == token.LSS {
			if _, inEnv := fr.env[b.Y]; inEnv {
				return le(add(idx, "1"), fr.val(c, b.Y).one())
			}
			if k, isConst := b.Y.(*ssa.Const); isConst {
				return le(add(idx, "1"), fr.val(c, k).one())
			}
		}
	}
	return "true"
}

// rangeIndexOf: the hidden index variable of a `for range` loop over a slice.
func rangeIndexOf(h *ssa.BasicBlock) *ssa.Alloc {
	for _, ins := range h.Instrs {
		if s, ok := ins.(*ssa.Store); ok {
			if a, ok := s.Addr.(*ssa.Alloc); ok && a.Comment == "rangeindex" {
				return a
			}
		}
	}
	return nil
}

func (c *Ctx) enterLoop(fr *Frame, h *ssa.BasicBlock, ord int, st *State, reach T) *State {
	invs, mods := c.loopClauses(fr, ord)
	if len(invs) == 0 && fr.ct == nil {
		panic(unsupported(fmt.Sprintf("loop %d of %s has no invariant", ord, funcKey(fr.fn))))
	}
	fk := funcKey(fr.fn)
	// 1. invariant holds on entry
	env := c.loopEnv(fr, h, st)
	for _, cl := range invs {
		g := c.evalClause(env, cl)
		c.oblige("invariant", fmt.Sprintf("%s:loop%d:entry:%s", fk, ord, cl.name()), cl.Tags, reach, g, h.Instrs[0].Pos(), cl.Text)
	}
	// 2. havoc everything the loop may change
	pre := st.clone()
	cur := st.clone()
	body := loopBody(h)
	for _, b := range fr.fn.Blocks {
		if !body[b] {
			continue
		}
		for _, ins := range b.Instrs {
			switch t := ins.(type) {
			case *ssa.Store:
				if a, ok := t.Addr.(*ssa.Alloc); ok {
					k := localKey{fr.id, a}
					if old, ok := cur.locals[k]; ok {
						cur.locals[k] = c.freshVal("lv."+localName(a), old.Typ, "")
					}
				}
			case *ssa.Next:
				k := iterKey{fr.id, t.Iter}
				if _, ok := cur.iters[k]; ok {
					cur.iters[k] = c.sc.fresh("visited", c.iterSort[k])
				}
			case *ssa.Defer:
				panic(unsupported("defer inside a loop"))
			}
		}
	}
	var locs []ModLoc
	for _, m := range mods {
		me := c.loopEnv(fr, h, st)
		for _, d := range m.Exprs {
			locs = append(locs, me.designator(d)...)
		}
	}
	ntop := c.sc.fresh("top", sInt)
	c.sc.assume(ge(ntop, st.top))
	c.havoc(cur, locs, ntop)
	cur.top = ntop
	// type facts of havocked locals relative to the new frontier
	{
		lk := map[localKey]bool{}
		for k := range cur.locals {
			lk[k] = true
		}
		for _, k := range sortedLocalKeys(lk) {
			v := cur.locals[k]
			if k.frame == fr.id {
				if o, ok := pre.locals[k]; ok && !sameLeaves(o, v) {
					c.sc.assume(c.valFacts(v, ntop))
				}
			}
		}
	}
	// the hidden index of a range loop only counts upwards from -1 (by
	// construction of the loop; asserted again at the back edge)
	if ri := rangeIndexOf(h); ri != nil {
		if v, ok := cur.locals[localKey{fr.id, ri}]; ok {
			c.sc.assume(imp(reach, and(ge(v.one(), num(-1)), lt(v.one(), maxLenTerm), c.rangeBound(fr, h, v.one()))))
		}
	}
	// 3. assume the invariant for an arbitrary iteration
	c.loopInfos[loopKey(c, fr, h)] = &loopInfo{modlocs: locs, pre: pre}
	env2 := c.loopEnv(fr, h, cur)
	for _, cl := range invs {
		c.sc.assume(imp(reach, c.evalClause(env2, cl)))
	}
	c.loopInfos[loopKey(c, fr, h)].head = cur.clone()
	return cur
}

func sameLeaves(a, b Val) bool {
	if len(a.L) != len(b.L) {
		return false
	}
	for i := range a.L {
		if a.L[i] != b.L[i] {
			return false
		}
	}
	return true
}

func (c *Ctx) evalClause(env *Env, cl *Clause) (g T) {
	env.at = fmt.Sprintf("%s:%d", cl.File, cl.Line)
	return env.evalBool(cl.Expr)
}

// ---- havoc and frames ----

func (c *Ctx) havoc(st *State, locs []ModLoc, ntop T) {
	for _, m := range locs {
		if m.Everything {
			c.nepochs++
			step := epochStep{epoch: c.nepochs, prev: st.epoch, prevGhost: st.ghostEpoch, except: m.Except}
			st.chain = append(st.chain, step)
			st.epoch = c.nepochs
			c.epochTop[st.epoch] = ntop
			nh := map[string]T{}
			for k, v := range st.heap {
				if exceptMatches(m.Except, k) {
					nh[k] = v
				}
			}
			// boxes no callee can reach keep their contents
			var keep []Val
			for _, pb := range st.private {
				keep = append(keep, c.nameVal("priv", c.loadBox(st, pb.typ, pb.ref)))
			}
			st.heap = nh
			for i, pb := range st.private {
				c.storeBox(st, pb.typ, pb.ref, keep[i])
			}
			continue
		}
		if m.Glob {
			if strings.HasPrefix(m.Key, "ghost:") {
				st.ghost[m.Key[6:]] = c.sc.fresh("ghost", sInt)
				continue
			}
			c.heapSort[m.Key] = m.Sort
			st.heap[m.Key] = c.sc.fresh("hv."+smtSym(m.Key), m.Sort)
			continue
		}
		if m.SetE != "" {
			// every object referenced from the slice: new heap array that agrees
			// with the old one outside the set
			h := c.heapGet(st, m.Key, m.Sort)
			nh := c.sc.fresh("hv."+smtSym(m.Key), m.Sort)
			c.sc.assume(fmt.Sprintf("(forall ((r Int)) (! (=> (not %s) (= (select %s r) (select %s r))) :pattern ((select %s r))))", m.inSet("r"), nh, h, nh))
			if l, known := c.keyLeaf[m.Key]; known || m.HasLeaf {
				if !known {
					l = m.Leaf
				}
				_, inner := innerSort(m.Sort)
				ks, _ := innerSort(inner)
				x := "(select (select " + nh + " r) i)"
				if f := allocGuard(l, c.leafFact(l, x, ntop), ntop); f != "true" {
					c.sc.assume(fmt.Sprintf("(forall ((r Int) (i %s)) (! %s :pattern (%s)))", ks, f, x))
				}
			}
			c.heapSort[m.Key] = m.Sort
			st.heap[m.Key] = nh
			continue
		}
		h := c.heapGet(st, m.Key, m.Sort)
		_, inner := innerSort(m.Sort)
		l, known := c.keyLeaf[m.Key]
		if !known {
			l = m.Leaf
			known = m.HasLeaf
		}
		guardSet := func(nh T) {
			if m.Guard != "" && m.Guard != "true" {
				nh = ite(m.Guard, nh, h)
			}
			c.heapSet(st, m.Key, m.Sort, nh)
		}
		if m.HasRange {
			v := c.sc.fresh("hv."+smtSym(m.Key), inner)
			old := sel(h, m.Ref)
			c.sc.assume(fmt.Sprintf("(forall ((i Int)) (! (=> (not (and (<= %s i) (< i %s))) (= (select %s i) (select %s i))) :pattern ((select %s i))))", m.RLo, m.RHi, v, old, v))
			if known {
				x := "(select " + v + " i)"
				if f := c.leafFact(l, x, ntop); f != "true" {
					c.sc.assume(fmt.Sprintf("(forall ((i Int)) (! %s :pattern (%s)))", f, x))
				}
			}
			guardSet(sto(h, m.Ref, v))
			continue
		}
		if m.HasIdx {
			_, leaf := innerSort(inner)
			v := c.sc.fresh("hv."+smtSym(m.Key), leaf)
			if known {
				c.sc.assume(c.leafFact(l, v, ntop))
			}
			guardSet(sto(h, m.Ref, sto(sel(h, m.Ref), m.Idx, v)))
		} else {
			v := c.sc.fresh("hv."+smtSym(m.Key), inner)
			if known {
				if strings.HasPrefix(inner, "(Array") {
					ks, _ := innerSort(inner)
					x := "(select " + v + " i)"
					if f := c.leafFact(l, x, ntop); f != "true" {
						c.sc.assume(fmt.Sprintf("(forall ((i %s)) (! %s :pattern (%s)))", ks, f, x))
					}
				} else {
					c.sc.assume(c.leafFact(l, v, ntop))
				}
			}
			guardSet(sto(h, m.Ref, v))
		}
	}
}

func (c *Ctx) declRoot() {
	c.sc.declareFun("rootof", []string{sInt}, sInt)
}

// frameObligations: every heap key whose term changed between `from` and `to`
// must agree with `from` outside the declared locations, for every object that
// already existed (reference <= oldTop, or pseudo-reference rooted there).
func (c *Ctx) frameObligations(name string, from, to *State, locs []ModLoc, reach T, oldTop T, pos token.Pos) {
	for _, m := range locs {
		if m.Everything {
			// only the excepted keys are framed: they must be unchanged
			var ks []string
			for k, t := range to.heap {
				if !exceptMatches(m.Except, k) {
					continue
				}
				if c.heapGet(from, k, c.heapSort[k]) != t {
					ks = append(ks, k)
				}
			}
			sort.Strings(ks)
			for _, k := range ks {
				c.oblige("frame", name+":"+k, nil, reach, eq(c.heapGet(from, k, c.heapSort[k]), to.heap[k]), pos, k+" is excepted from `modifies everything` and must be unchanged")
			}
			gk := map[string]bool{}
			for k := range to.ghost {
				gk[k] = true
			}
			for _, k := range sortedStrKeys(gk) {
				listed := false
				for _, m2 := range locs {
					if m2.Key == "ghost:"+k {
						listed = true
					}
				}
				if t := to.ghost[k]; !listed && c.ghostGet(from, k) != t {
					c.oblige("frame", name+":ghost:"+k, nil, reach, eq(c.ghostGet(from, k), t), pos, "ghost counter "+k+" unchanged")
				}
			}
			return
		}
	}
	var keys []string
	for k, t := range to.heap {
		ft, ok := from.heap[k]
		if !ok {
			ft = c.heapInit(k, c.heapSort[k])
		}
		if ft != t {
			keys = append(keys, k)
		}
	}
	sort.Strings(keys)
	for _, k := range keys {
		srt := c.heapSort[k]
		ft := c.heapGet(from, k, srt)
		tt := to.heap[k]
		if strings.HasPrefix(k, "g:") {
			allowed := false
			for _, m := range locs {
				if m.Key == k {
					allowed = true
				}
			}
			if !allowed {
				c.oblige("frame", name+":"+k, nil, reach, eq(ft, tt), pos, "global "+k+" unchanged")
			}
			continue
		}
		r := c.sc.fresh("fr.r", sInt)
		_, inner := innerSort(srt)
		twoLevel := strings.HasPrefix(inner, "(Array")
		var j T
		if twoLevel {
			ks, _ := innerSort(inner)
			j = c.sc.fresh("fr.j", ks)
		}
		var excl []T
		for _, m := range locs {
			if m.Key != k {
				continue
			}
			if m.SetE != "" {
				excl = append(excl, not(m.inSet(r)))
				continue
			}
			g := m.Guard
			if g == "" {
				g = "true"
			}
			if m.HasRange && twoLevel {
				excl = append(excl, not(and(g, eq(r, m.Ref), le(m.RLo, j), lt(j, m.RHi))))
			} else if m.HasIdx && twoLevel {
				excl = append(excl, not(and(g, eq(r, m.Ref), eq(j, m.Idx))))
			} else {
				excl = append(excl, not(and(g, eq(r, m.Ref))))
			}
		}
		c.declRoot()
		existed := or(and(gt(r, "0"), le(r, oldTop)), and(lt(r, "0"), gt(app("rootof", r), "0"), le(app("rootof", r), oldTop)))
		var same T
		if twoLevel {
			same = eq(sel(sel(ft, r), j), sel(sel(tt, r), j))
		} else {
			same = eq(sel(ft, r), sel(tt, r))
		}
		c.oblige("frame", name+":"+k, nil, reach, imp(and(append(excl, existed)...), same), pos, "only declared locations of "+k+" change")
	}
	// ghost counters
	gk := map[string]bool{}
	for k := range to.ghost {
		gk[k] = true
	}
	for _, k := range sortedStrKeys(gk) {
		t := to.ghost[k]
		ft, ok := from.ghost[k]
		if !ok {
			ft = c.ghostInit(k)
		}
		if ft == t {
			continue
		}
		allowed := false
		for _, m := range locs {
			if m.Key == "ghost:"+k {
				allowed = true
			}
		}
		if !allowed {
			c.oblige("frame", name+":ghost:"+k, nil, reach, eq(ft, t), pos, "ghost counter "+k+" unchanged")
		}
	}
}

func (c *Ctx) ghostGet(st *State, k string) T {
	c.ghostNames[k] = true
	if t, ok := st.ghost[k]; ok {
		return t
	}
	if e := st.baseGhostEpoch(k); e > 0 {
		n := fmt.Sprintf("Ge%d.%s", e, smtSym(k))
		c.sc.declare(n, sInt)
		return n
	}
	return c.ghostInit(k)
}

// ---- values ----

func (fr *Frame) val(c *Ctx, v ssa.Value) Val {
	if x, ok := fr.env[v]; ok {
		return x
	}
	switch t := v.(type) {
	case *ssa.Const:
		return c.constOf(t)
	case *ssa.Global:
		panic(unsupported("address of global " + t.String() + " used as a value"))
	case *ssa.Function:
		r := c.sc.fresh("fn."+t.Name(), sInt)
		c.closures[r] = &closure{fn: t}
		c.sc.assume(gt(r, "0"))
		x := Val{Typ: t.Type(), L: []T{r}}
		fr.env[v] = x
		return x
	case *ssa.FreeVar:
		if fr.cl != nil {
			return fr.cl.bindings[fr.freeVars[t]]
		}
	case *ssa.Parameter:
	}
	if p, ok := fr.ptrs[v]; ok {
		// symbolic pointer used as a first-class value
		switch p.kind {
		case pBox, pStruct:
			return Val{Typ: v.Type(), L: []T{p.ref}}
		}
		panic(unsupported(fmt.Sprintf("interior pointer %s (%s) used as a value in %s", v.Name(), v.Type(), funcKey(fr.fn))))
	}
	panic(fmt.Sprintf("no value for %s (%T) in %s", v.Name(), v, funcKey(fr.fn)))
}

func (c *Ctx) constOf(k *ssa.Const) Val {
	t := k.Type()
	if k.Value == nil {
		return zeroVal(t)
	}
	switch k.Value.Kind() {
	case constant.Float, constant.Complex:
		return Val{Typ: t, L: []T{"0"}}
	}
	if isInterface(t) {
		panic(unsupported("non-nil interface constant"))
	}
	return c.constVal(t, k.Value)
}

func (c *Ctx) describeValue(v ssa.Value) string {
	switch t := v.(type) {
	case *ssa.Const:
		if t.Value != nil && t.Value.Kind() == constant.String {
			s := constant.StringVal(t.Value)
			if len(s) > 24 {
				s = s[:24]
			}
			return s
		}
		if t.Value != nil {
			return t.Value.ExactString()
		}
		return "nil"
	case *ssa.MakeInterface:
		return c.describeValue(t.X)
	case *ssa.Call:
		if f := t.Call.StaticCallee(); f != nil {
			return f.Name() + "()"
		}
	case *ssa.UnOp:
		if t.Op == token.MUL {
			return c.describeValue(t.X)
		}
	case *ssa.Alloc:
		return localName(t)
	case *ssa.Parameter:
		return t.Name()
	case *ssa.FieldAddr:
		st := deref(t.X.Type()).Underlying().(*types.Struct)
		return c.describeValue(t.X) + "." + st.Field(t.Field).Name()
	case *ssa.IndexAddr:
		return c.describeValue(t.X) + "[" + c.describeValue(t.Index) + "]"
	case *ssa.Global:
		return t.Name()
	case *ssa.BinOp:
		return c.describeValue(t.X) + t.Op.String() + c.describeValue(t.Y)
	case *ssa.Convert:
		return c.describeValue(t.X)
	case *ssa.Slice:
		return c.describeValue(t.X) + "[:]"
	case *ssa.Extract:
		return c.describeValue(t.Tuple) + "#" + fmt.Sprint(t.Index)
	case *ssa.Lookup:
		return c.describeValue(t.X) + "[" + c.describeValue(t.Index) + "]"
	}
	return "_"
}

// ptrOf resolves a pointer-typed SSA value to a location.
func (fr *Frame) ptrOf(c *Ctx, v ssa.Value) *Ptr {
	if p, ok := fr.ptrs[v]; ok {
		return p
	}
	if g, ok := v.(*ssa.Global); ok {
		return &Ptr{kind: pGlobal, glob: g, typ: deref(g.Type())}
	}
	x := fr.val(c, v)
	t := deref(v.Type())
	if isStructType(t) {
		return &Ptr{kind: pStruct, ref: x.one(), typ: t}
	}
	return &Ptr{kind: pBox, ref: x.one(), typ: t}
}

func (c *Ctx) nonNil(what string, reach T, ref T, pos token.Pos) {
	if strings.HasPrefix(ref, "new.") || strings.HasPrefix(ref, "(nest.") || strings.HasPrefix(ref, "(elemref.") {
		return
	}
	c.safe("nil:"+what, reach, not(eq(ref, "0")), pos)
}

func (c *Ctx) load(fr *Frame, st *State, reach T, p *Ptr, what string, pos token.Pos) Val {
	switch p.kind {
	case pLocal:
		v, ok := st.locals[p.key]
		if !ok {
			panic(fmt.Sprintf("local %s not initialised in %s", localName(p.key.alloc), funcKey(fr.fn)))
		}
		return v
	case pField:
		return c.loadField(st, p.structT, p.field, p.ref)
	case pElem:
		return c.loadElem(st, p.typ, p.ref, p.idx)
	case pBox:
		c.nonNil(what, reach, p.ref, pos)
		if at, ok := p.typ.Underlying().(*types.Array); ok {
			// whole array value out of a region
			out := Val{Typ: p.typ}
			for i := int64(0); i < at.Len(); i++ {
				out.L = append(out.L, c.loadElem(st, at.Elem(), p.ref, num(i)).L...)
			}
			return out
		}
		return c.loadBox(st, p.typ, p.ref)
	case pStruct:
		c.nonNil(what, reach, p.ref, pos)
		return c.loadStruct(st, p.typ, p.ref)
	case pGlobal:
		return c.readGlobal(st, p.glob)
	}
	panic("load")
}

func (c *Ctx) store(fr *Frame, st *State, reach T, p *Ptr, v Val, what string, pos token.Pos) {
	switch p.kind {
	case pLocal:
		st.locals[p.key] = v
	case pField:
		c.storeField(st, p.structT, p.field, p.ref, v)
	case pElem:
		c.storeElem(st, p.typ, p.ref, p.idx, v)
	case pBox:
		c.nonNil(what, reach, p.ref, pos)
		if at, ok := p.typ.Underlying().(*types.Array); ok {
			n := len(leavesOf(at.Elem()))
			for i := int64(0); i < at.Len(); i++ {
				c.storeElem(st, at.Elem(), p.ref, num(i), Val{Typ: at.Elem(), L: v.L[int(i)*n : int(i+1)*n]})
			}
			return
		}
		c.storeBox(st, p.typ, p.ref, v)
	case pStruct:
		c.nonNil(what, reach, p.ref, pos)
		c.storeStruct(st, p.typ, p.ref, v)
	case pGlobal:
		if c.P.constGlobals[p.glob] && fr.fn.Name() != "init" {
			panic("store to constant global")
		}
		for i, l := range leavesOf(p.typ) {
			k := globKey(p.glob.String(), l.Suffix)
			c.heapSort[k] = l.Sort
			st.heap[k] = c.sc.def("g", l.Sort, v.L[i])
		}
	}
}

// readGlobal: module globals that are never reassigned are fixed constants
// (with their initialiser when it is a literal); others are heap cells.
func (c *Ctx) readGlobal(st *State, g *ssa.Global) Val {
	t := deref(g.Type())
	ls := leavesOf(t)
	v := Val{Typ: t, L: make([]T, len(ls))}
	if c.P.constGlobals[g] {
		if init, ok := c.P.globalInit[g]; ok && init != nil {
			if k, ok := init.(*ssa.Const); ok {
				return c.constOf(k)
			}
		}
		for i, l := range ls {
			n := "glob." + smtSym(g.String()+l.Suffix)
			c.sc.declare(n, l.Sort)
			v.L[i] = n
		}
		key := "globfacts:" + g.String()
		if !c.factsDone[key] {
			c.factsDone[key] = true
			c.sc.assume(c.valFacts(v, c.entryTopOrZero()))
			if isInterface(t) {
				// sentinel errors etc.: initialised to a non-nil value, distinct per variable
				if _, ok := c.P.globalInit[g]; ok {
					c.sc.assume(and(gt(v.L[0], "0"), gt(v.L[1], "0")))
					c.sentinels = append(c.sentinels, v.L[1])
					for _, o := range c.sentinels[:len(c.sentinels)-1] {
						c.sc.assume(not(eq(o, v.L[1])))
					}
				}
			}
			if _, isMap := t.Underlying().(*types.Map); isMap {
				c.sc.assume(gt(v.L[0], "0"))
			}
			if _, isPtr := t.Underlying().(*types.Pointer); isPtr {
				if _, ok := c.P.globalInit[g]; ok {
					c.sc.assume(gt(v.L[0], "0"))
				}
			}
		}
		return v
	}
	for i, l := range ls {
		v.L[i] = c.heapGet(st, globKey(g.String(), l.Suffix), l.Sort)
	}
	return v
}

func (c *Ctx) entryTopOrZero() T {
	if c.entryTop != "" {
		return c.entryTop
	}
	return ""
}

// inSet: r is one of the references stored in the slice (SetE, SetOff, SetLen).
func (m ModLoc) inSet(r T) T {
	return fmt.Sprintf("(exists ((q.si Int)) (and (<= 0 q.si) (< q.si %s) (= %s (select %s %s))))", m.SetLen, r, m.SetE, slIdx(m.SetOff, "q.si"))
}
