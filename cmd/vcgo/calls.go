package main

// Calls: builtins, intrinsics for a few standard-library functions, modular
// calls through contracts, inlining of contract-less module helpers, interface
// dispatch (devirtualisation rules or assumed interface contracts) and calls
// through function values.

import (
	"fmt"
	"go/token"
	"go/types"
	"strings"

	"golang.org/x/tools/go/ssa"
)

const maxInlineDepth = 8

func (c *Ctx) doCall(fr *Frame, st *State, reach T, instr *ssa.Call, cc *ssa.CallCommon) Val {
	var args []Val
	for _, a := range cc.Args {
		if p, ok := fr.ptrs[a]; ok && (p.kind == pField || p.kind == pElem || p.kind == pLocal) {
			// interior pointer argument: only intrinsics can take it
			args = append(args, Val{Typ: a.Type()})
			continue
		}
		args = append(args, fr.val(c, a))
	}
	var recv *Val
	if cc.IsInvoke() || cc.StaticCallee() == nil {
		if _, isB := cc.Value.(*ssa.Builtin); !isB {
			v := fr.val(c, cc.Value)
			recv = &v
		}
	}
	fr.curCall = cc
	r := c.callCommon(fr, st, reach, cc, args, recv, instr.Pos())
	if instr.Type() != nil {
		r.Typ = instr.Type()
	}
	if len(r.L) > 0 {
		r = c.nameVal(vname(fr, instr), r)
	}
	return r
}

func (c *Ctx) callCommon(fr *Frame, st *State, reach T, cc *ssa.CallCommon, args []Val, recv *Val, pos token.Pos) Val {
	if b, ok := cc.Value.(*ssa.Builtin); ok {
		return c.builtinCall(fr, st, reach, b, cc, args, pos)
	}
	if cc.IsInvoke() {
		return c.invoke(fr, st, reach, cc, *recv, args, pos)
	}
	if fn := cc.StaticCallee(); fn != nil {
		var cl *closure
		if mc, ok := cc.Value.(*ssa.MakeClosure); ok {
			cl = c.closures[fr.val(c, mc).one()]
		}
		return c.staticCall(fr, st, reach, fn, args, cl, pos, cc)
	}
	// call through a function value
	fv := *recv
	if cl, ok := c.closures[fv.one()]; ok {
		a := args
		if cl.recv != nil {
			a = append([]Val{*cl.recv}, args...)
		}
		return c.staticCall(fr, st, reach, cl.fn, a, cl, pos, cc)
	}
	return c.funcValueCall(fr, st, reach, cc, fv, args, pos)
}

func (c *Ctx) siteName(callee string) string {
	c.callOrd[callee]++
	if n := c.callOrd[callee]; n > 1 {
		return fmt.Sprintf("%s@%d", callee, n)
	}
	return callee
}

// callSiteAsserts: assertions the caller's contract attaches to calls of key.
func (c *Ctx) callSiteAsserts(fr *Frame, st *State, reach T, key string, pos token.Pos, args []Val) {
	if fr.ct == nil || len(fr.ct.Sites) == 0 {
		return
	}
	for _, cl := range fr.ct.Sites {
		if !cl.inSlice(c.prop) {
			continue
		}
		if strings.HasSuffix(cl.File, "*") {
			if !strings.HasPrefix(key, strings.TrimSuffix(cl.File, "*")) {
				continue
			}
		} else if cl.File != key {
			continue
		}
		env := c.specEnv(fr, st)
		env.params = env.vars
		env.vars = map[string]Val{}
		// the actual arguments of the call: arg0, arg1, ...
		for i, a := range args {
			if len(a.L) > 0 {
				env.vars[fmt.Sprintf("arg%d", i)] = a
			}
		}
		if fr.curBlock != nil {
			h := fr.innerLoop[fr.curBlock]
			if h == nil {
				// not in a natural loop body (e.g. a block that returns): the
				// nearest dominating loop header
				for d := fr.curBlock.Idom(); d != nil; d = d.Idom() {
					if _, ok := fr.loopOrd[d]; ok {
						h = d
						break
					}
				}
			}
			if h != nil {
				if li := c.loopInfos[loopKey(c, fr, h)]; li != nil {
					env.iterHead = li.head
					env.loopPre = li.pre
				}
			}
		}
		env.at = fmt.Sprintf("callsite %s in %s", key, funcKey(fr.fn))
		g := env.evalBool(cl.Expr)
		if cl.Assumed {
			c.trust("premise assumed at the call of " + key + " in " + funcKey(fr.fn) + ": " + cl.Text)
			c.sc.assume(imp(reach, g))
			continue
		}
		c.oblige("callsite", c.siteName("site:"+key+":"+cl.name()), cl.Tags, reach, g, pos, cl.Text)
	}
}

func (c *Ctx) staticCall(fr *Frame, st *State, reach T, fn *ssa.Function, args []Val, cl *closure, pos token.Pos, cc *ssa.CallCommon) Val {
	key := funcKey(fn)
	c.callSiteAsserts(fr, st, reach, key, pos, args)
	if fn.Synthetic != "" && strings.Contains(fn.Synthetic, "bound method wrapper") {
		// $bound wrapper: receiver is the single free variable
		panic(unsupported("bound method wrapper call " + key))
	}
	if h, ok := intrinsics[key]; ok {
		if r, handled := h(c, fr, st, reach, cc, args, pos); handled {
			return r
		}
	}
	ct := c.P.CS.Funcs[key]
	if ct != nil && !ct.Inline {
		return c.contractCall(fr, st, reach, key, ct, fn.Signature, args, pos)
	}
	if inModule(pkgOf(fn)) && len(fn.Blocks) > 0 {
		return c.inline(fr, st, reach, fn, args, cl, ct)
	}
	if fn.Parent() != nil && len(fn.Blocks) > 0 {
		return c.inline(fr, st, reach, fn, args, cl, ct)
	}
	if r, ok := c.defaultStdCall(fn, st, key); ok {
		return r
	}
	panic(unsupported("call to " + key + " (no contract, not inlinable)"))
}

func pkgOf(fn *ssa.Function) *types.Package {
	if fn.Pkg != nil {
		return fn.Pkg.Pkg
	}
	if fn.Parent() != nil {
		return pkgOf(fn.Parent())
	}
	if recv := fn.Signature.Recv(); recv != nil {
		if n, ok := deref(recv.Type()).(*types.Named); ok {
			return n.Obj().Pkg()
		}
	}
	return nil
}

// inline executes the callee's body in place.
func (c *Ctx) inline(fr *Frame, st *State, reach T, fn *ssa.Function, args []Val, cl *closure, ct *Contract) Val {
	if c.inlineDepth >= maxInlineDepth {
		panic(unsupported("inlining too deep at " + funcKey(fn)))
	}
	c.inlineDepth++
	defer func() { c.inlineDepth-- }()
	nf := c.newFrame(fn)
	nf.ct = ct
	if len(args) != len(fn.Params) {
		panic(fmt.Sprintf("inline %s: %d args for %d params", funcKey(fn), len(args), len(fn.Params)))
	}
	for i, p := range fn.Params {
		nf.env[p] = Val{Typ: p.Type(), L: args[i].L}
		nf.params[p.Name()] = nf.env[p]
	}
	if cl != nil {
		nf.cl = cl
		nf.freeVars = map[*ssa.FreeVar]int{}
		for i, fv := range fn.FreeVars {
			nf.freeVars[fv] = i
			if i < len(cl.bptrs) && cl.bptrs[i] != nil {
				nf.ptrs[fv] = cl.bptrs[i]
			}
		}
	}
	out, oreach, res := c.execBody(nf, st, reach)
	// continue in the callee's exit state
	*st = *out
	_ = oreach
	if oreach != reach {
		// paths of the callee that do not return (panic) end execution
		c.sc.assume(imp(reach, oreach))
	}
	return res
}

// contractCall: assert the precondition, havoc the frame, assume the
// postcondition.
func (c *Ctx) contractCall(fr *Frame, st *State, reach T, key string, ct *Contract, sig *types.Signature, args []Val, pos token.Pos) Val {
	site := c.siteName(key)
	if ct.Assumed {
		c.trust("assumed contract: " + key)
	}
	env := &Env{c: c, vars: map[string]Val{}, st: st, at: key}
	if p := c.contractPkg(ct); p != nil {
		env.pkg = p
	}
	names := formalNames(sig, ct)
	if len(names) != len(args) {
		panic(fmt.Sprintf("%s: %d formals, %d args", key, len(names), len(args)))
	}
	for i, n := range names {
		if n != "" && n != "_" {
			env.vars[n] = args[i]
		}
	}
	for _, cl := range ct.Requires {
		if !cl.inSlice(c.prop) {
			continue
		}
		g := c.evalClause(env, cl)
		c.oblige("precondition", fmt.Sprintf("pre:%s:%s", site, cl.name()), cl.Tags, reach, g, pos, cl.Text)
	}
	for _, cl := range ct.Premises {
		if !cl.inSlice(c.prop) {
			continue
		}
		c.trust("premise (assumed at call sites of " + key + "): " + cl.Text)
		c.sc.assume(imp(reach, c.evalClause(env, cl)))
	}
	pre := st.clone()
	var locs []ModLoc
	for _, m := range ct.Modifies {
		for _, d := range m.Exprs {
			env.at = fmt.Sprintf("%s:%d", m.File, m.Line)
			locs = append(locs, env.designator(d)...)
		}
	}
	ntop := c.sc.fresh("top", sInt)
	c.sc.assume(ge(ntop, st.top))
	c.havoc(st, locs, ntop)
	st.top = ntop
	res := c.freshVal("r."+smtSym(site), sig.Results(), ntop)
	post := &Env{c: c, pkg: env.pkg, vars: map[string]Val{}, st: st, old: pre, oldTop: pre.top, at: key}
	for k, v := range env.vars {
		post.vars[k] = v
	}
	bindResults(post.vars, sig, res)
	for _, cl := range ct.Ensures {
		if !cl.inSlice(c.prop) {
			continue
		}
		c.sc.assume(imp(reach, c.evalClause(post, cl)))
	}
	return res
}

func (c *Ctx) contractPkg(ct *Contract) *types.Package {
	if p := c.P.Pkgs[ct.Pkg]; p != nil {
		return p.Pkg
	}
	return nil
}

func formalNames(sig *types.Signature, ct *Contract) []string {
	if ct != nil && len(ct.Params) > 0 {
		return ct.Params
	}
	var names []string
	if r := sig.Recv(); r != nil {
		n := r.Name()
		if n == "" || n == "_" {
			n = "recv"
		}
		names = append(names, n)
	}
	for i := 0; i < sig.Params().Len(); i++ {
		n := sig.Params().At(i).Name()
		if n == "" || n == "_" {
			n = fmt.Sprintf("arg%d", i)
		}
		names = append(names, n)
	}
	return names
}

func bindResults(vars map[string]Val, sig *types.Signature, res Val) {
	rs := sig.Results()
	for i := 0; i < rs.Len(); i++ {
		lo, hi := tupleRange(rs, i)
		v := Val{Typ: rs.At(i).Type(), L: res.L[lo:hi]}
		vars[fmt.Sprintf("result%d", i)] = v
		if rs.Len() == 1 {
			vars["result"] = v
		}
		if n := rs.At(i).Name(); n != "" && n != "_" {
			if _, clash := vars[n]; !clash {
				vars[n] = v
			}
		}
	}
}

// ---- interface method calls ----

func (c *Ctx) invoke(fr *Frame, st *State, reach T, cc *ssa.CallCommon, recv Val, args []Val, pos token.Pos) Val {
	it := cc.Value.Type()
	ik := typeKey(it)
	name := cc.Method.Name()
	sig := cc.Method.Type().(*types.Signature)
	if c.P.CS.NoEffectIfaces[ik] {
		c.trust("interface " + ik + ": calls have no effect on verified state and do not panic")
		return c.freshVal("r."+name, sig.Results(), st.top)
	}
	c.safe("nil:"+c.describeValue(cc.Value)+"."+name, reach, not(eq(recv.L[0], "0")), pos)
	for _, d := range c.P.CS.Devirts {
		if d.Iface == ik {
			ct := c.resolveTypeName(d.Concrete)
			c.trust("devirtualised: every " + ik + " is a " + d.Concrete)
			c.sc.assume(imp(reach, eq(recv.L[0], num(int64(c.P.typeID(ct))))))
			mk := methodKey(ct, name)
			fn := c.P.Funcs[mk]
			if fn == nil {
				panic(unsupported("devirtualised method " + mk + " not found"))
			}
			a := append([]Val{{Typ: ct, L: []T{recv.L[1]}}}, args...)
			return c.staticCall(fr, st, reach, fn, a, nil, pos, cc)
		}
	}
	key := "(" + ik + ")." + name
	// call-site assertions of the caller's contract (arg0 is the receiver)
	c.callSiteAsserts(fr, st, reach, key, pos, append([]Val{recv}, args...))
	if ct := c.P.CS.Funcs[key]; ct != nil {
		fsig := types.NewSignatureType(types.NewVar(token.NoPos, nil, "recv", it), nil, nil, sig.Params(), sig.Results(), sig.Variadic())
		return c.contractCall(fr, st, reach, key, ct, fsig, append([]Val{recv}, args...), pos)
	}
	if ik == "error" && name == "Error" {
		c.sc.declareFun("err.text", []string{sInt, sInt}, sStr)
		return Val{Typ: sig.Results(), L: []T{app("err.text", recv.L[0], recv.L[1])}}
	}
	panic(unsupported("interface call " + key + " (no contract)"))
}

func (c *Ctx) resolveTypeName(s string) types.Type {
	ptr := strings.HasPrefix(s, "*")
	s = strings.TrimPrefix(s, "*")
	i := strings.LastIndex(s, ".")
	p := c.P.Pkgs[s[:i]]
	if p == nil {
		panic("unknown package in type name " + s)
	}
	tn, ok := p.Pkg.Scope().Lookup(s[i+1:]).(*types.TypeName)
	if !ok {
		panic("unknown type " + s)
	}
	if ptr {
		return types.NewPointer(tn.Type())
	}
	return tn.Type()
}

// funcValueCall: call through an unknown function value. A contract keyed by
// the named function type, or by "field:Struct.name", may describe it;
// otherwise the documented rule for client callbacks applies: arbitrary
// results, no effect on verified state.
func (c *Ctx) funcValueCall(fr *Frame, st *State, reach T, cc *ssa.CallCommon, fv Val, args []Val, pos token.Pos) Val {
	sig := cc.Value.Type().Underlying().(*types.Signature)
	c.safe("nil:func:"+c.describeValue(cc.Value), reach, not(eq(fv.one(), "0")), pos)
	key := "functype:" + typeKey(cc.Value.Type())
	if ct := c.P.CS.Funcs[key]; ct != nil {
		return c.contractCall(fr, st, reach, key, ct, sig, args, pos)
	}
	c.trust("calls through function values (" + typeKey(cc.Value.Type()) + ") return arbitrary results and do not modify verified state")
	ntop := c.sc.fresh("top", sInt)
	c.sc.assume(ge(ntop, st.top))
	st.top = ntop
	return c.freshVal("r.fv", sig.Results(), ntop)
}

// ---- builtins ----

func (c *Ctx) builtinCall(fr *Frame, st *State, reach T, b *ssa.Builtin, cc *ssa.CallCommon, args []Val, pos token.Pos) Val {
	switch b.Name() {
	case "len":
		x := args[0]
		switch u := cc.Args[0].Type().Underlying().(type) {
		case *types.Slice:
			return scalar(tInt, x.L[2])
		case *types.Basic:
			return scalar(tInt, app("slen", x.one()))
		case *types.Array:
			return scalar(tInt, num(u.Len()))
		case *types.Pointer:
			return scalar(tInt, num(u.Elem().Underlying().(*types.Array).Len()))
		case *types.Map:
			c.sc.declareFun("maplen", []string{sInt}, sInt)
			r := c.sc.fresh("maplen", sInt)
			c.sc.assume(ge(r, "0"))
			return scalar(tInt, r)
		}
	case "cap":
		if _, ok := cc.Args[0].Type().Underlying().(*types.Slice); ok {
			return scalar(tInt, args[0].L[3])
		}
	case "append":
		return c.doAppend(fr, st, reach, cc, args)
	case "copy":
		return c.doCopy(fr, st, reach, cc, args)
	case "delete":
		mt := cc.Args[0].Type().Underlying().(*types.Map)
		c.nilMapEmpty(st, mt)
		// delete on a nil map is a no-op; model by guarding
		m := args[0].one()
		c.msumDeleteFact(st, mt, m, args[1].one())
		ks := keySortOfMap(mt)
		dk := mapDomKey(mt)
		ds := arr(sInt, arr(ks, sBool))
		d := c.heapGet(st, dk, ds)
		c.heapSet(st, dk, ds, ite(eq(m, "0"), d, sto(d, m, sto(sel(d, m), args[1].one(), "false"))))
		return Val{Typ: types.NewTuple()}
	case "ssa:wrapnilchk":
		c.safe("nil:"+c.describeValue(cc.Args[0]), reach, not(eq(args[0].one(), "0")), pos)
		return args[0]
	case "ssa:deferstack":
		return zeroVal(b.Type().(*types.Signature).Results().At(0).Type())
	case "print", "println":
		return Val{Typ: types.NewTuple()}
	case "min", "max":
		x, y := args[0].one(), args[1].one()
		if b.Name() == "min" {
			return scalar(cc.Args[0].Type(), ite(le(x, y), x, y))
		}
		return scalar(cc.Args[0].Type(), ite(ge(x, y), x, y))
	}
	panic(unsupported("builtin " + b.Name() + " on " + cc.Args[0].Type().String()))
}

// doAppend models append exactly: it writes into spare capacity when the
// result fits, otherwise it allocates a fresh backing array.
func (c *Ctx) doAppend(fr *Frame, st *State, reach T, cc *ssa.CallCommon, args []Val) Val {
	s := args[0]
	st0 := cc.Args[0].Type()
	el := st0.Underlying().(*types.Slice).Elem()
	if isStructType(el) {
		return c.appendStructs(fr, st, reach, cc, args)
	}
	nl := len(leavesOf(el))
	// source elements: slice or string
	var tlen T
	var srcAt func(leaf int, i T) T
	if isString(cc.Args[1].Type()) {
		str := args[1].one()
		tlen = app("slen", str)
		srcAt = func(leaf int, i T) T { return app("sbyte", str, i) }
	} else {
		t := args[1]
		tlen = t.L[2]
		arrs := make([]T, nl)
		for k := 0; k < nl; k++ {
			arrs[k] = c.sc.def("app.src", arr(sInt, leavesOf(el)[k].Sort), c.elemArray(st, el, k, t.L[0]))
		}
		srcAt = func(leaf int, i T) T { return sel(arrs[leaf], add(t.L[1], i)) }
	}
	n := c.sc.def("app.len", sInt, add(s.L[2], tlen))
	fits := c.sc.def("app.fits", sBool, le(n, s.L[3]))
	nref := c.allocRef(st, "append")
	ncap := c.sc.fresh("app.cap", sInt)
	c.sc.assume(imp(reach, and(ge(ncap, n), lt(ncap, maxLenTerm))))
	small := -1
	if isNumeral(tlen) {
		fmt.Sscanf(tlen, "%d", &small)
		if small > 4 {
			small = -1
		}
	}
	for k := 0; k < nl; k++ {
		lsort := leavesOf(el)[k].Sort
		as := arr(sInt, lsort)
		old := c.sc.def("app.old", as, c.elemArray(st, el, k, s.L[0]))
		// in place: old with [off+len, off+len+tlen) overwritten
		var inplace, moved T
		if small >= 0 {
			inplace = old
			moved = c.sc.fresh("app.new", as)
			for i := 0; i < small; i++ {
				inplace = sto(inplace, add(add(s.L[1], s.L[2]), num(int64(i))), srcAt(k, num(int64(i))))
			}
			q := fmt.Sprintf("q.a.%d", c.nextID())
			c.sc.assume(fmt.Sprintf("(forall ((%s Int)) (! (=> (and (<= 0 %s) (< %s %s)) (= (select %s %s) (select %s (+ %s %s)))) :pattern ((select %s %s))))",
				q, q, q, s.L[2], moved, q, old, s.L[1], q, moved, q))
			for i := 0; i < small; i++ {
				c.sc.assume(eq(sel(moved, add(s.L[2], num(int64(i)))), srcAt(k, num(int64(i)))))
			}
		} else {
			inplace = c.sc.fresh("app.inpl", as)
			moved = c.sc.fresh("app.new", as)
			q := fmt.Sprintf("q.a.%d", c.nextID())
			base := add(s.L[1], s.L[2])
			c.sc.assume(fmt.Sprintf("(forall ((%s Int)) (! (= (select %s %s) (ite (and (<= %s %s) (< %s (+ %s %s))) %s (select %s %s))) :pattern ((select %s %s))))",
				q, inplace, q, base, q, q, base, tlen, srcAt(k, sub(q, base)), old, q, inplace, q))
			c.sc.assume(fmt.Sprintf("(forall ((%s Int)) (! (=> (and (<= 0 %s) (< %s %s)) (= (select %s %s) (ite (< %s %s) (select %s (+ %s %s)) %s))) :pattern ((select %s %s))))",
				q, q, q, n, moved, q, q, s.L[2], old, s.L[1], q, srcAt(k, sub(q, s.L[2])), moved, q))
		}
		key := elemKey(el, leavesOf(el)[k].Suffix)
		srt := arr(sInt, as)
		h := c.heapGet(st, key, srt)
		c.heapSet(st, key, srt, ite(fits, sto(h, s.L[0], inplace), sto(h, nref, moved)))
	}
	// appending nothing to a nil slice yields nil
	res := Val{Typ: st0, L: []T{
		ite(fits, s.L[0], nref),
		ite(fits, s.L[1], "0"),
		n,
		ite(fits, s.L[3], ncap),
	}}
	return res
}

// appendStructs: append of struct elements (element-wise pseudo objects).
// Only the single-element form `append(s, x)` is supported.
func (c *Ctx) appendStructs(fr *Frame, st *State, reach T, cc *ssa.CallCommon, args []Val) Val {
	s, t := args[0], args[1]
	el := cc.Args[0].Type().Underlying().(*types.Slice).Elem()
	if t.L[2] != "1" {
		panic(unsupported("append of several struct elements"))
	}
	n := c.sc.def("app.len", sInt, add(s.L[2], "1"))
	// sound simplification: always reallocate (no aliasing facts are exposed
	// for struct slices), copying the old elements
	nref := c.allocRef(st, "append")
	ncap := c.sc.fresh("app.cap", sInt)
	c.sc.assume(imp(reach, and(ge(ncap, n), lt(ncap, maxLenTerm))))
	sv := c.loadStruct(st, el, c.elemRef(el, t.L[0], t.L[1]))
	// copy: for every field key of el, elements at elemref(nref,i) = elemref(s.ref, off+i)
	c.copyStructElems(st, el, s.L[0], s.L[1], nref, s.L[2])
	c.storeStruct(st, el, c.elemRef(el, nref, s.L[2]), sv)
	c.trust("append on slices of structs is modelled as always reallocating (no write into spare capacity)")
	return Val{Typ: cc.Args[0].Type(), L: []T{nref, "0", n, ncap}}
}

func (c *Ctx) copyStructElems(st *State, el types.Type, fromRef, fromOff, toRef, n T) {
	s := el.Underlying().(*types.Struct)
	fnm := "elemref." + smtSym(typeKey(el))
	c.elemRef(el, toRef, "0") // make sure the function is declared
	for i := 0; i < s.NumFields(); i++ {
		f := s.Field(i)
		if isStructType(f.Type()) {
			panic(unsupported("nested struct in slice element"))
		}
		for _, l := range leavesOf(f.Type()) {
			key := fieldKey(el, f.Name(), l.Suffix)
			srt := arr(sInt, l.Sort)
			h := c.heapGet(st, key, srt)
			nh := c.sc.fresh("H."+smtSym(key), srt)
			q := fmt.Sprintf("q.c.%d", c.nextID())
			// new heap agrees with old everywhere except the copied pseudo-objects
			c.sc.assume(fmt.Sprintf("(forall ((%s Int)) (! (=> (and (<= 0 %s) (< %s %s)) (= (select %s (%s %s %s)) (select %s (%s %s (+ %s %s))))) :pattern ((%s %s %s))))",
				q, q, q, n, nh, fnm, toRef, q, h, fnm, fromRef, fromOff, q, fnm, toRef, q))
			r := fmt.Sprintf("q.r.%d", c.nextID())
			c.sc.assume(fmt.Sprintf("(forall ((%s Int)) (! (=> (not (= (%s.inv1 %s) %s)) (= (select %s %s) (select %s %s))) :pattern ((select %s %s))))",
				r, fnm, r, toRef, nh, r, h, r, nh, r))
			c.heapSort[key] = srt
			st.heap[key] = nh
		}
	}
}

func (c *Ctx) doCopy(fr *Frame, st *State, reach T, cc *ssa.CallCommon, args []Val) Val {
	d := args[0]
	el := cc.Args[0].Type().Underlying().(*types.Slice).Elem()
	if isStructType(el) {
		panic(unsupported("copy of struct slices"))
	}
	var slen T
	var srcAt func(leaf int, i T) T
	if isString(cc.Args[1].Type()) {
		str := args[1].one()
		slen = app("slen", str)
		srcAt = func(leaf int, i T) T { return app("sbyte", str, i) }
	} else {
		t := args[1]
		slen = t.L[2]
		srcAt = func(leaf int, i T) T {
			return sel(c.elemArray(st, el, leaf, t.L[0]), add(t.L[1], i))
		}
	}
	n := c.sc.def("copy.n", sInt, ite(le(d.L[2], slen), d.L[2], slen))
	for k, l := range leavesOf(el) {
		as := arr(sInt, l.Sort)
		old := c.sc.def("copy.old", as, c.elemArray(st, el, k, d.L[0]))
		src := srcAt(k, sub("QQ", d.L[1]))
		na := c.sc.fresh("copy.new", as)
		q := fmt.Sprintf("q.cp.%d", c.nextID())
		src = strings.ReplaceAll(src, "QQ", q)
		c.sc.assume(fmt.Sprintf("(forall ((%s Int)) (! (= (select %s %s) (ite (and (<= %s %s) (< %s (+ %s %s))) %s (select %s %s))) :pattern ((select %s %s))))",
			q, na, q, d.L[1], q, q, d.L[1], n, src, old, q, na, q))
		c.setElemArray(st, el, k, d.L[0], na)
	}
	return scalar(tInt, n)
}


// defaultStdCall: standard-library functions without a contract that cannot touch
// the state contracts talk about. (a) Output-only functions (log.*, fmt.Print*):
// no effect. (b) Functions of value-only packages (strings, strconv, unicode,
// math, ...) whose parameters and results are scalars and strings: pure, result
// unconstrained within its type. Both are recorded in the trusted base. Anything
// else without a contract stays outside the subset.
func (c *Ctx) defaultStdCall(fn *ssa.Function, st *State, key string) (Val, bool) {
	pkg := pkgOf(fn)
	if pkg == nil || fn.Signature.Recv() != nil {
		return Val{}, false
	}
	path := pkg.Path()
	res := fn.Signature.Results()
	fresh := func() Val {
		if res.Len() == 0 {
			return Val{Typ: types.NewTuple()}
		}
		if res.Len() == 1 {
			return c.freshVal("std."+fn.Name(), res.At(0).Type(), st.top)
		}
		out := Val{Typ: res}
		for i := 0; i < res.Len(); i++ {
			out.L = append(out.L, c.freshVal("std."+fn.Name(), res.At(i).Type(), st.top).L...)
		}
		return out
	}
	valueOnly := func(t types.Type) bool {
		b, ok := t.Underlying().(*types.Basic)
		return ok && b.Info()&(types.IsBoolean|types.IsNumeric|types.IsString) != 0
	}
	switch {
	case path == "log" || (path == "fmt" && (strings.HasPrefix(fn.Name(), "Print") || strings.HasPrefix(fn.Name(), "Sprint"))):
		for i := 0; i < res.Len(); i++ {
			if !valueOnly(res.At(i).Type()) && res.At(i).Type().String() != "error" {
				return Val{}, false
			}
		}
		if fn.Name() == "Fatal" || fn.Name() == "Fatalf" || fn.Name() == "Fatalln" || strings.HasPrefix(fn.Name(), "Panic") {
			return Val{}, false
		}
		c.trust("standard library output/formatting function " + key + ": no effect on verified state, does not panic, result unconstrained")
		return fresh(), true
	case path == "strings" || path == "strconv" || path == "unicode" || path == "unicode/utf8" || path == "math" || path == "math/bits" || path == "path" || path == "path/filepath":
		ps := fn.Signature.Params()
		for i := 0; i < ps.Len(); i++ {
			if !valueOnly(ps.At(i).Type()) {
				return Val{}, false
			}
		}
		for i := 0; i < res.Len(); i++ {
			if !valueOnly(res.At(i).Type()) && res.At(i).Type().String() != "error" {
				return Val{}, false
			}
		}
		c.trust("standard library function " + key + ": pure (scalar/string parameters and results), result unconstrained within its type")
		return fresh(), true
	}
	return Val{}, false
}
