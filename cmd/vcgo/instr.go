package main

// Semantics of the individual go/ssa instructions, with the automatic
// no-panic obligations (nil dereference, bounds, nil map, type assertion,
// division by zero).

import (
	"fmt"
	"go/token"
	"go/types"

	"golang.org/x/tools/go/ssa"
)

func (c *Ctx) step(fr *Frame, st *State, reach T, instr ssa.Instruction) {
	switch t := instr.(type) {
	case *ssa.DebugRef:
	case *ssa.Alloc:
		c.doAlloc(fr, st, t)
	case *ssa.Store:
		p := fr.ptrOf(c, t.Addr)
		c.store(fr, st, reach, p, fr.val(c, t.Val), c.describeValue(t.Addr), t.Pos())
	case *ssa.UnOp:
		c.doUnOp(fr, st, reach, t)
	case *ssa.BinOp:
		fr.env[t] = c.nameVal(vname(fr, t), c.doBinOp(fr, st, reach, t))
	case *ssa.FieldAddr:
		c.doFieldAddr(fr, st, reach, t)
	case *ssa.Field:
		x := fr.val(c, t.X)
		lo, hi := fieldRange(t.X.Type(), t.Field)
		fr.env[t] = Val{Typ: t.Type(), L: x.L[lo:hi]}
	case *ssa.IndexAddr:
		c.doIndexAddr(fr, st, reach, t)
	case *ssa.Index:
		x := fr.val(c, t.X)
		i := fr.val(c, t.Index).one()
		if at, ok := t.X.Type().Underlying().(*types.Array); ok {
			c.safe("index:"+c.describeValue(t.X)+"["+c.describeValue(t.Index)+"]", reach, and(le("0", i), lt(i, num(at.Len()))), t.Pos())
			fr.env[t] = c.arrayIndex(x, i)
			break
		}
		panic(unsupported("Index on " + t.X.Type().String()))
	case *ssa.Lookup:
		c.doLookup(fr, st, reach, t)
	case *ssa.Slice:
		c.doSlice(fr, st, reach, t)
	case *ssa.Convert:
		fr.env[t] = c.nameVal(vname(fr, t), c.doConvert(fr, st, t))
	case *ssa.ChangeType:
		x := fr.val(c, t.X)
		fr.env[t] = Val{Typ: t.Type(), L: x.L}
	case *ssa.ChangeInterface:
		x := fr.val(c, t.X)
		fr.env[t] = Val{Typ: t.Type(), L: x.L}
	case *ssa.MakeInterface:
		fr.env[t] = c.makeInterface(st, fr.val(c, t.X), t.Type())
	case *ssa.TypeAssert:
		c.doTypeAssert(fr, st, reach, t)
	case *ssa.MakeSlice:
		ln, cp := fr.val(c, t.Len).one(), fr.val(c, t.Cap).one()
		c.safe("makeslice:len", reach, and(le("0", ln), le(ln, cp)), t.Pos())
		el := t.Type().Underlying().(*types.Slice).Elem()
		r := c.allocRef(st, "slice")
		c.zeroRegion(st, el, r)
		fr.env[t] = Val{Typ: t.Type(), L: []T{r, "0", ln, cp}}
	case *ssa.MakeMap:
		mt := t.Type().Underlying().(*types.Map)
		r := c.allocRef(st, "map")
		ks := keySortOfMap(mt)
		dk := mapDomKey(mt)
		ds := arr(sInt, arr(ks, sBool))
		c.heapSet(st, dk, ds, sto(c.heapGet(st, dk, ds), r, c.constArr(arr(ks, sBool), "false")))
		if c.msumApplies(mt) {
			c.sc.assume(eq(c.msumOf(st, mt, r), "0"))
		}
		fr.env[t] = Val{Typ: t.Type(), L: []T{r}}
	case *ssa.MapUpdate:
		m := fr.val(c, t.Map)
		mt := t.Map.Type().Underlying().(*types.Map)
		c.safe("nilmap:"+c.describeValue(t.Map), reach, not(eq(m.one(), "0")), t.Pos())
		c.mapSet(st, mt, m.one(), fr.val(c, t.Key).one(), fr.val(c, t.Value))
	case *ssa.Range:
		x := fr.val(c, t.X)
		mt, ok := t.X.Type().Underlying().(*types.Map)
		if !ok {
			panic(unsupported("range over " + t.X.Type().String()))
		}
		k := iterKey{fr.id, t}
		srt := arr(keySortOfMap(mt), sBool)
		c.iterSort[k] = srt
		st.iters[k] = c.constArr(srt, "false")
		fr.env[t] = Val{Typ: t.Type(), L: []T{x.one()}}
	case *ssa.Next:
		c.doNext(fr, st, reach, t)
	case *ssa.Extract:
		tup := fr.val(c, t.Tuple)
		lo, hi := tupleRange(t.Tuple.Type().(*types.Tuple), t.Index)
		fr.env[t] = Val{Typ: t.Type(), L: tup.L[lo:hi]}
	case *ssa.Phi:
		var es []edgeIn
		var vals []Val
		for i, e := range t.Edges {
			pred := t.Block().Preds[i]
			for _, in := range fr.curIns {
				if in.from == pred {
					es = append(es, edgeIn{in.cond, in.st})
					vals = append(vals, fr.val(c, e))
				}
			}
		}
		if len(vals) == 0 {
			panic("phi without live incoming edge")
		}
		fr.env[t] = c.mergeVals(vname(fr, t), es, vals)
	case *ssa.Call:
		r := c.doCall(fr, st, reach, t, &t.Call)
		fr.env[t] = r
	case *ssa.Defer:
		d := deferRec{frame: fr.id, instr: t}
		for _, a := range t.Call.Args {
			d.args = append(d.args, fr.val(c, a))
		}
		if t.Call.IsInvoke() || t.Call.StaticCallee() == nil {
			v := fr.val(c, t.Call.Value)
			d.recv = &v
		}
		st.defers = append(st.defers, d)
	case *ssa.RunDefers:
		for len(st.defers) > 0 && st.defers[len(st.defers)-1].frame == fr.id {
			d := st.defers[len(st.defers)-1]
			st.defers = st.defers[:len(st.defers)-1]
			c.callCommon(fr, st, reach, &d.instr.Call, d.args, d.recv, d.instr.Pos())
		}
	case *ssa.MakeClosure:
		fn := t.Fn.(*ssa.Function)
		cl := &closure{fn: fn}
		for _, b := range t.Bindings {
			if p, ok := fr.ptrs[b]; ok {
				cl.bindings = append(cl.bindings, Val{Typ: b.Type()})
				cl.bptrs = append(cl.bptrs, p)
			} else {
				cl.bindings = append(cl.bindings, fr.val(c, b))
				cl.bptrs = append(cl.bptrs, nil)
			}
		}
		r := c.allocRef(st, "closure")
		c.closures[r] = cl
		fr.env[t] = Val{Typ: t.Type(), L: []T{r}}
	default:
		panic(unsupported(fmt.Sprintf("instruction %T (%s) in %s", instr, instr, funcKey(fr.fn))))
	}
}

func vname(fr *Frame, v ssa.Value) string {
	return fmt.Sprintf("f%d.%s", fr.id, v.Name())
}

func (c *Ctx) zeroRegion(st *State, el types.Type, r T) {
	if isStructType(el) {
		return // struct elements are zero-initialised lazily (see loadElem of fresh regions)
	}
	for i, l := range leavesOf(el) {
		c.setElemArray(st, el, i, r, c.constArr(arr(sInt, l.Sort), zeroLeaf(l)))
	}
}

// simpleLocal: an Alloc whose address is only ever loaded from or stored to.
func simpleLocal(a *ssa.Alloc) bool {
	t := deref(a.Type())
	if isStructType(t) || isArrayType(t) {
		return false
	}
	for _, r := range *a.Referrers() {
		switch u := r.(type) {
		case *ssa.Store:
			if u.Addr != a {
				return false
			}
		case *ssa.UnOp:
			if u.Op != token.MUL {
				return false
			}
		case *ssa.DebugRef:
		default:
			return false
		}
	}
	return true
}

// privateBox: a variable that lives in a heap box only because closures of the
// same function capture it, where those closures are merely called or deferred
// by that function (never stored, passed or returned) and use the variable only
// by loading and storing it. No callee can reach such a box, so a callee's
// `modifies everything` does not include it.
func privateBox(a *ssa.Alloc) bool {
	t := deref(a.Type())
	if isStructType(t) || isArrayType(t) {
		return false
	}
	loadStoreOnly := func(v ssa.Value, refs []ssa.Instruction) bool {
		for _, r := range refs {
			switch u := r.(type) {
			case *ssa.Store:
				if u.Addr != v {
					return false
				}
			case *ssa.UnOp:
				if u.Op != token.MUL {
					return false
				}
			case *ssa.DebugRef, *ssa.MakeClosure:
			default:
				return false
			}
		}
		return true
	}
	if !loadStoreOnly(a, *a.Referrers()) {
		return false
	}
	calledOnly := func(v ssa.Value) bool {
		for _, r := range *v.Referrers() {
			switch u := r.(type) {
			case *ssa.Call:
				if u.Call.Value != v {
					return false
				}
				for _, x := range u.Call.Args {
					if x == v {
						return false
					}
				}
			case *ssa.Defer:
				if u.Call.Value != v {
					return false
				}
				for _, x := range u.Call.Args {
					if x == v {
						return false
					}
				}
			case *ssa.DebugRef:
			default:
				return false
			}
		}
		return true
	}
	for _, r := range *a.Referrers() {
		mc, ok := r.(*ssa.MakeClosure)
		if !ok {
			continue
		}
		// inside the closure: the free variable is only loaded and stored
		fn := mc.Fn.(*ssa.Function)
		for i, b := range mc.Bindings {
			if b == a {
				if !loadStoreOnly(fn.FreeVars[i], *fn.FreeVars[i].Referrers()) {
					return false
				}
				for _, fr := range *fn.FreeVars[i].Referrers() {
					if _, nested := fr.(*ssa.MakeClosure); nested {
						return false
					}
				}
			}
		}
		// the closure value: called/deferred directly, or parked in a plain local that is only called/deferred
		for _, mr := range *mc.Referrers() {
			switch u := mr.(type) {
			case *ssa.Store:
				l, ok := u.Addr.(*ssa.Alloc)
				if !ok || u.Val != mc || !simpleLocal(l) {
					return false
				}
				for _, lr := range *l.Referrers() {
					if ld, ok := lr.(*ssa.UnOp); ok && !calledOnly(ld) {
						return false
					}
				}
			case *ssa.Call:
				if u.Call.Value != mc {
					return false
				}
			case *ssa.Defer:
				if u.Call.Value != mc {
					return false
				}
			case *ssa.DebugRef:
			default:
				return false
			}
		}
	}
	return true
}

func (c *Ctx) doAlloc(fr *Frame, st *State, a *ssa.Alloc) {
	t := deref(a.Type())
	if a.Comment == "defer$stack" || t.String() == "deferStack" {
		st.locals[localKey{fr.id, a}] = zeroVal(t)
		fr.ptrs[a] = &Ptr{kind: pLocal, key: localKey{fr.id, a}, typ: t}
		return
	}
	switch {
	case isStructType(t):
		r := c.allocRef(st, localName(a))
		c.storeStruct(st, t, r, zeroVal(t))
		fr.env[a] = Val{Typ: a.Type(), L: []T{r}}
		// ghost state of a zero value (e.g. an empty strings.Builder)
		for _, zf := range c.P.CS.ZeroFacts[t.String()] {
			e := &Env{c: c, vars: map[string]Val{"x": {Typ: a.Type(), L: []T{r}}}, st: st, at: fmt.Sprintf("%s:%d", zf.File, zf.Line)}
			c.trust("zero value of " + t.String() + ": " + zf.Text)
			c.sc.assume(e.evalBool(zf.Expr))
		}
	case isArrayType(t):
		r := c.allocRef(st, localName(a))
		c.zeroRegion(st, t.Underlying().(*types.Array).Elem(), r)
		fr.env[a] = Val{Typ: a.Type(), L: []T{r}}
	case simpleLocal(a):
		k := localKey{fr.id, a}
		st.locals[k] = zeroVal(t)
		fr.ptrs[a] = &Ptr{kind: pLocal, key: k, typ: t}
	default:
		r := c.allocRef(st, localName(a))
		c.storeBox(st, t, r, zeroVal(t))
		fr.env[a] = Val{Typ: a.Type(), L: []T{r}}
		if privateBox(a) {
			st.private = append(st.private[:len(st.private):len(st.private)], privBox{typ: t, ref: r})
		}
	}
}

func (c *Ctx) doFieldAddr(fr *Frame, st *State, reach T, t *ssa.FieldAddr) {
	base := fr.val(c, t.X)
	structT := deref(t.X.Type())
	f := structT.Underlying().(*types.Struct).Field(t.Field)
	ref := base.one()
	c.nonNil(c.describeValue(t.X), reach, ref, t.Pos())
	if isStructType(f.Type()) {
		fr.env[t] = Val{Typ: t.Type(), L: []T{c.nestRef(structT, f.Name(), ref)}}
		return
	}
	fr.ptrs[t] = &Ptr{kind: pField, ref: ref, structT: structT, field: f, typ: f.Type()}
}

func (c *Ctx) doIndexAddr(fr *Frame, st *State, reach T, t *ssa.IndexAddr) {
	i := fr.val(c, t.Index).one()
	what := "index:" + c.describeValue(t.X) + "[" + c.describeValue(t.Index) + "]"
	switch u := t.X.Type().Underlying().(type) {
	case *types.Slice:
		s := fr.val(c, t.X)
		c.safe(what, reach, and(le("0", i), lt(i, s.L[2])), t.Pos())
		idx := slIdx(s.L[1], i)
		if isStructType(u.Elem()) {
			fr.env[t] = Val{Typ: t.Type(), L: []T{c.elemRef(u.Elem(), s.L[0], idx)}}
			return
		}
		fr.ptrs[t] = &Ptr{kind: pElem, ref: s.L[0], idx: idx, typ: u.Elem()}
	case *types.Pointer:
		at := u.Elem().Underlying().(*types.Array)
		var ref T
		if p, ok := fr.ptrs[t.X]; ok && p.kind == pField {
			panic(unsupported("array field indexing"))
		}
		ref = fr.val(c, t.X).one()
		c.nonNil(c.describeValue(t.X), reach, ref, t.Pos())
		c.safe(what, reach, and(le("0", i), lt(i, num(at.Len()))), t.Pos())
		if isStructType(at.Elem()) {
			fr.env[t] = Val{Typ: t.Type(), L: []T{c.elemRef(at.Elem(), ref, i)}}
			return
		}
		fr.ptrs[t] = &Ptr{kind: pElem, ref: ref, idx: i, typ: at.Elem()}
	default:
		panic(unsupported("IndexAddr on " + t.X.Type().String()))
	}
}

func (c *Ctx) doUnOp(fr *Frame, st *State, reach T, t *ssa.UnOp) {
	switch t.Op {
	case token.MUL:
		p := fr.ptrOf(c, t.X)
		v := c.load(fr, st, reach, p, c.describeValue(t.X), t.Pos())
		v.Typ = t.Type()
		if p.kind != pLocal {
			v = c.nameVal(vname(fr, t), v)
			// only under reach: on a path that does not execute this load the
			// heap may hold values no execution produces (e.g. a slice header
			// written by a slicing that would have panicked)
			c.sc.assume(imp(reach, c.valFacts(v, st.top)))
		}
		fr.env[t] = v
	case token.NOT:
		fr.env[t] = Val{Typ: t.Type(), L: []T{not(fr.val(c, t.X).one())}}
	case token.SUB:
		fr.env[t] = Val{Typ: t.Type(), L: []T{wrapInt(t.Type(), app("-", fr.val(c, t.X).one()))}}
	case token.XOR:
		x := fr.val(c, t.X).one()
		if isUnsigned(t.Type()) {
			_, hi, _ := intRange(t.Type())
			fr.env[t] = Val{Typ: t.Type(), L: []T{sub(numBig(hi), x)}}
		} else {
			fr.env[t] = Val{Typ: t.Type(), L: []T{sub(app("-", x), "1")}}
		}
	default:
		panic(unsupported("unary " + t.Op.String()))
	}
}

func (c *Ctx) doBinOp(fr *Frame, st *State, reach T, t *ssa.BinOp) Val {
	x, y := fr.val(c, t.X), fr.val(c, t.Y)
	rt := t.Type()
	xt := t.X.Type()
	b := func(s T) Val { return Val{Typ: rt, L: []T{s}} }
	switch t.Op {
	case token.EQL, token.NEQ:
		var e T
		switch {
		case isString(xt):
			e = c.strEq(x.one(), y.one())
		case isInterface(xt) && isInterface(t.Y.Type()):
			e = and(eq(x.L[0], y.L[0]), eq(x.L[1], y.L[1]))
		case isInterface(xt) || isInterface(t.Y.Type()):
			panic(unsupported("interface compared with concrete value"))
		default:
			if _, ok := xt.Underlying().(*types.Slice); ok {
				e = eq(x.L[0], y.L[0]) // only comparison with nil is legal
			} else if len(x.L) == len(y.L) {
				var cs []T
				for i := range x.L {
					if leavesOf(xt)[i].Sort == sStr {
						cs = append(cs, c.strEq(x.L[i], y.L[i]))
					} else {
						cs = append(cs, eq(x.L[i], y.L[i]))
					}
				}
				e = and(cs...)
			} else {
				panic(unsupported("comparison of " + xt.String()))
			}
		}
		if t.Op == token.NEQ {
			e = not(e)
		}
		return b(e)
	}
	if isString(xt) {
		switch t.Op {
		case token.ADD:
			return b(c.concat(x.one(), y.one()))
		case token.LSS, token.LEQ, token.GTR, token.GEQ:
			c.sc.declareFun("strlt", []string{sStr, sStr}, sBool)
			switch t.Op {
			case token.LSS:
				return b(app("strlt", x.one(), y.one()))
			case token.GTR:
				return b(app("strlt", y.one(), x.one()))
			case token.LEQ:
				return b(not(app("strlt", y.one(), x.one())))
			default:
				return b(not(app("strlt", x.one(), y.one())))
			}
		}
	}
	if isBoolean(xt) {
		panic(unsupported("boolean binop " + t.Op.String()))
	}
	if !isInteger(xt) {
		// floats: unmodelled
		return c.freshVal("float", rt, "")
	}
	p, q := x.one(), y.one()
	bits, signed := intBits(xt.Underlying().(*types.Basic))
	switch t.Op {
	case token.LSS:
		return b(lt(p, q))
	case token.LEQ:
		return b(le(p, q))
	case token.GTR:
		return b(gt(p, q))
	case token.GEQ:
		return b(ge(p, q))
	case token.ADD:
		return b(wrapInt(rt, add(p, q)))
	case token.SUB:
		return b(wrapInt(rt, sub(p, q)))
	case token.MUL:
		return b(wrapInt(rt, app("*", p, q)))
	case token.QUO, token.REM:
		c.safe("divzero:"+c.describeValue(t.Y), reach, not(eq(q, "0")), t.Pos())
		if !signed {
			if t.Op == token.QUO {
				return b(app("div", p, q))
			}
			return b(app("mod", p, q))
		}
		// truncated division
		ap, aq := app("abs", p), app("abs", q)
		quo := app("div", ap, aq)
		neg := not(eq(lt(p, "0"), lt(q, "0")))
		tq := ite(neg, app("-", quo), quo)
		if t.Op == token.QUO {
			return b(wrapInt(rt, tq))
		}
		return b(sub(p, app("*", tq, q)))
	case token.AND, token.OR, token.XOR, token.AND_NOT:
		if signed {
			panic(unsupported("bit operation on signed integer"))
		}
		op := map[token.Token]string{token.AND: "and", token.OR: "or", token.XOR: "xor", token.AND_NOT: "andnot"}[t.Op]
		return b(c.bitop(op, bits, p, q))
	case token.SHL:
		if signed {
			panic(unsupported("shift of signed integer"))
		}
		return b(c.shiftLeft(bits, p, q))
	case token.SHR:
		if signed {
			panic(unsupported("shift of signed integer"))
		}
		return b(c.shiftRight(bits, p, q))
	}
	panic(unsupported("binop " + t.Op.String()))
}

func (c *Ctx) doConvert(fr *Frame, st *State, t *ssa.Convert) Val {
	x := fr.val(c, t.X)
	from, to := t.X.Type(), t.Type()
	switch {
	case isInteger(from) && isInteger(to):
		flo, fhi, _ := intRange(from)
		tlo, thi, _ := intRange(to)
		if flo.Cmp(tlo) >= 0 && fhi.Cmp(thi) <= 0 {
			return Val{Typ: to, L: x.L}
		}
		return Val{Typ: to, L: []T{wrapInt(to, x.one())}}
	case isString(to):
		if sl, ok := from.Underlying().(*types.Slice); ok {
			if !isByteType(sl.Elem()) {
				// string([]rune): UTF-8 encoding is not modelled; only the length bounds
				c.trust("string([]rune) yields an unconstrained string of at most 4 bytes per rune (UTF-8 is not modelled)")
				v := c.freshVal("runes2str", to, "")
				c.sc.assume(and(le(app("slen", v.one()), app("*", "4", x.L[2])), imp(eq(x.L[2], "0"), eq(app("slen", v.one()), "0"))))
				return v
			}
			return Val{Typ: to, L: []T{c.strOfBytes(st, sl.Elem(), x)}}
		}
		if isString(from) {
			return Val{Typ: to, L: x.L}
		}
		if isInteger(from) {
			c.sc.declareFun("str.rune", []string{sInt}, sStr)
			return Val{Typ: to, L: []T{app("str.rune", x.one())}}
		}
	case isString(from):
		if sl, ok := to.Underlying().(*types.Slice); ok {
			if !isByteType(sl.Elem()) {
				// []rune(s): a fresh slice with between ceil(len/4) and len(s) elements (UTF-8 is not modelled)
				c.trust("[]rune(s) yields a fresh slice of unconstrained runes, at most len(s) and at least len(s)/4 of them (UTF-8 is not modelled)")
				r := c.allocRef(st, "runes")
				n := c.sc.fresh("runes.len", sInt)
				c.sc.assume(and(ge(n, "0"), le(n, app("slen", x.one())), ge(app("*", "4", n), app("slen", x.one()))))
				return Val{Typ: to, L: []T{r, "0", n, n}}
			}
			return c.bytesOfStr(st, to, x.one())
		}
	}
	if ls := leavesOf(to); len(ls) == 1 && ls[0].Kind == lkFloat {
		return c.freshVal("float", to, "")
	}
	if ls := leavesOf(from); len(ls) == 1 && ls[0].Kind == lkFloat {
		c.trust("float->int conversion result is unconstrained (floating point is not modelled)")
		return c.freshVal("fromfloat", to, "")
	}
	if types.Identical(from.Underlying(), to.Underlying()) {
		return Val{Typ: to, L: x.L}
	}
	panic(unsupported(fmt.Sprintf("conversion %v -> %v", from, to)))
}

func pointerLike(t types.Type) bool {
	switch t.Underlying().(type) {
	case *types.Pointer, *types.Map, *types.Chan, *types.Signature:
		return true
	}
	return false
}

func (c *Ctx) makeInterface(st *State, x Val, ifaceT types.Type) Val {
	tag := num(int64(c.P.typeID(x.Typ)))
	if pointerLike(x.Typ) {
		return Val{Typ: ifaceT, L: []T{tag, x.one()}}
	}
	r := c.allocRef(st, "box")
	c.storeBox(st, x.Typ, r, x)
	return Val{Typ: ifaceT, L: []T{tag, r}}
}

func (c *Ctx) ifacePayload(st *State, v Val, t types.Type) Val {
	if pointerLike(t) {
		return Val{Typ: t, L: []T{v.L[1]}}
	}
	return c.loadBox(st, t, v.L[1])
}

func (c *Ctx) doTypeAssert(fr *Frame, st *State, reach T, t *ssa.TypeAssert) {
	x := fr.val(c, t.X)
	var ok T
	var v Val
	if isInterface(t.AssertedType) {
		c.sc.declareFun("implements", []string{sInt, sInt}, sBool)
		ok = and(not(eq(x.L[0], "0")), app("implements", x.L[0], num(int64(c.P.typeID(t.AssertedType)))))
		if it := t.AssertedType.Underlying().(*types.Interface); it.NumMethods() == 0 {
			ok = not(eq(x.L[0], "0"))
		}
		v = Val{Typ: t.AssertedType, L: []T{ite(ok, x.L[0], "0"), ite(ok, x.L[1], "0")}}
	} else {
		ok = eq(x.L[0], num(int64(c.P.typeID(t.AssertedType))))
		p := c.ifacePayload(st, x, t.AssertedType)
		z := zeroVal(t.AssertedType)
		v = Val{Typ: t.AssertedType, L: make([]T, len(p.L))}
		for i := range p.L {
			v.L[i] = ite(ok, p.L[i], z.L[i])
		}
	}
	if t.CommaOk {
		out := Val{Typ: t.Type()}
		out.L = append(out.L, v.L...)
		out.L = append(out.L, ok)
		fr.env[t] = c.nameVal(vname(fr, t), out)
		return
	}
	c.safe("typeassert:"+c.describeValue(t.X), reach, ok, t.Pos())
	fr.env[t] = v
}

func (c *Ctx) doLookup(fr *Frame, st *State, reach T, t *ssa.Lookup) {
	x := fr.val(c, t.X)
	if mt, ok := t.X.Type().Underlying().(*types.Map); ok {
		k := fr.val(c, t.Index).one()
		c.nilMapEmpty(st, mt)
		has := c.mapHas(st, mt, x.one(), k)
		v := c.mapGet(st, mt, x.one(), k)
		z := zeroVal(mt.Elem())
		out := Val{Typ: mt.Elem(), L: make([]T, len(v.L))}
		for i := range v.L {
			out.L[i] = ite(has, v.L[i], z.L[i])
		}
		if t.CommaOk {
			r := Val{Typ: t.Type()}
			r.L = append(r.L, out.L...)
			r.L = append(r.L, has)
			r = c.nameVal(vname(fr, t), r)
			c.sc.assume(imp(reach, c.valFacts(Val{Typ: mt.Elem(), L: r.L[:len(out.L)]}, st.top)))
			fr.env[t] = r
			return
		}
		out = c.nameVal(vname(fr, t), out)
		c.sc.assume(imp(reach, c.valFacts(out, st.top)))
		fr.env[t] = out
		return
	}
	if isString(t.X.Type()) {
		i := fr.val(c, t.Index).one()
		c.safe("index:"+c.describeValue(t.X)+"["+c.describeValue(t.Index)+"]", reach, and(le("0", i), lt(i, app("slen", x.one()))), t.Pos())
		b := c.sc.def(vname(fr, t), sInt, app("sbyte", x.one(), i))
		c.sc.assume(inRange("0", b, "255"))
		fr.env[t] = Val{Typ: t.Type(), L: []T{b}}
		return
	}
	panic(unsupported("lookup on " + t.X.Type().String()))
}

// nilMapEmpty: reading a nil map behaves like reading an empty map.
func (c *Ctx) nilMapEmpty(st *State, mt *types.Map) {
	ks := keySortOfMap(mt)
	k := mapDomKey(mt)
	h := c.heapInit(k, arr(sInt, arr(ks, sBool)))
	c.onceFact("nilmap:"+k, eq(sel(h, "0"), c.constArr(arr(ks, sBool), "false")))
}

func (c *Ctx) doSlice(fr *Frame, st *State, reach T, t *ssa.Slice) {
	what := "slice:" + c.describeValue(t.X)
	optional := func(v ssa.Value, def T) T {
		if v == nil {
			return def
		}
		return fr.val(c, v).one()
	}
	switch u := t.X.Type().Underlying().(type) {
	case *types.Slice:
		s := fr.val(c, t.X)
		lo := optional(t.Low, "0")
		hi := optional(t.High, s.L[2])
		mx := optional(t.Max, s.L[3])
		what += fmt.Sprintf("[%s:%s]", descOpt(c, t.Low), descOpt(c, t.High))
		c.safe(what, reach, and(le("0", lo), le(lo, hi), le(hi, mx), le(mx, s.L[3])), t.Pos())
		// a nil slice stays nil when resliced [0:0]
		ref := s.L[0]
		fr.env[t] = c.nameVal(vname(fr, t), Val{Typ: t.Type(), L: []T{ref, add(s.L[1], lo), sub(hi, lo), sub(mx, lo)}})
	case *types.Basic:
		s := fr.val(c, t.X).one()
		lo := optional(t.Low, "0")
		hi := optional(t.High, app("slen", s))
		what += fmt.Sprintf("[%s:%s]", descOpt(c, t.Low), descOpt(c, t.High))
		c.safe(what, reach, and(le("0", lo), le(lo, hi), le(hi, app("slen", s))), t.Pos())
		fr.env[t] = Val{Typ: t.Type(), L: []T{c.sc.def(vname(fr, t), sStr, c.substr(s, lo, hi))}}
	case *types.Pointer:
		at := u.Elem().Underlying().(*types.Array)
		ref := fr.val(c, t.X).one()
		c.nonNil(c.describeValue(t.X), reach, ref, t.Pos())
		n := num(at.Len())
		lo := optional(t.Low, "0")
		hi := optional(t.High, n)
		mx := optional(t.Max, n)
		what += fmt.Sprintf("[%s:%s]", descOpt(c, t.Low), descOpt(c, t.High))
		c.safe(what, reach, and(le("0", lo), le(lo, hi), le(hi, mx), le(mx, n)), t.Pos())
		fr.env[t] = c.nameVal(vname(fr, t), Val{Typ: t.Type(), L: []T{ref, lo, sub(hi, lo), sub(mx, lo)}})
	default:
		panic(unsupported("slice of " + t.X.Type().String()))
	}
}

func descOpt(c *Ctx, v ssa.Value) string {
	if v == nil {
		return ""
	}
	return c.describeValue(v)
}

func (c *Ctx) doNext(fr *Frame, st *State, reach T, t *ssa.Next) {
	if t.IsString {
		panic(unsupported("range over string"))
	}
	rng := t.Iter.(*ssa.Range)
	mt := rng.X.Type().Underlying().(*types.Map)
	k := iterKey{fr.id, rng}
	vis := st.iters[k]
	m := fr.val(c, rng).one()
	c.nilMapEmpty(st, mt)
	ks := keySortOfMap(mt)
	ok := c.sc.fresh("next.ok", sBool)
	key := c.sc.fresh("next.k", ks)
	kl := leavesOf(mt.Key())[0]
	dom := c.mapDom(st, mt, m)
	dom = c.sc.def("dom", arr(ks, sBool), dom)
	c.sc.assume(imp(ok, and(sel(dom, key), not(sel(vis, key)), c.leafFact(kl, key, st.top))))
	qv := fmt.Sprintf("q.k.%d", c.nextID())
	c.sc.assume(imp(not(ok), fmt.Sprintf("(forall ((%s %s)) (=> (select %s %s) (select %s %s)))", qv, ks, dom, qv, vis, qv)))
	if c.msumApplies(mt) {
		// partial sums over the visited set: msum(visited, val)
		c.declMsum()
		v0 := c.sc.def("mv0", arr(sStr, sStr), sel(c.heapGet(st, mapValKey(mt, ""), arr(sInt, arr(sStr, sStr))), m))
		s0 := app("msum", vis, v0)
		s1 := app("msum", sto(vis, key, "true"), v0)
		c.sc.assume(and(eq(s1, add(s0, ite(sel(vis, key), "0", app("slen", sel(v0, key))))), ge(s0, "0")))
		c.sc.assume(eq(app("msum", c.constArr(arr(sStr, sBool), "false"), v0), "0"))
		qs := fmt.Sprintf("q.k.%d", c.nextID())
		// exhausted iterator that visited only members: visited = dom
		c.sc.assume(imp(not(ok), imp(fmt.Sprintf("(forall ((%s %s)) (=> (select %s %s) (select %s %s)))", qs, ks, vis, qs, dom, qs), eq(s0, app("msum", dom, v0)))))
	}
	st.iters[k] = c.sc.def("visited", c.iterSort[k], sto(vis, key, "true"))
	val := c.mapGet(st, mt, m, key)
	val = c.nameVal("next.v", val)
	c.sc.assume(imp(reach, c.valFacts(val, st.top)))
	out := Val{Typ: t.Type(), L: []T{ok, key}}
	out.L = append(out.L, val.L...)
	// the tuple type of Next may mark unused components invalid; keep leaves aligned
	tt := t.Type().(*types.Tuple)
	fixed := Val{Typ: t.Type()}
	fixed.L = append(fixed.L, ok)
	if isValidType(tt.At(1).Type()) {
		fixed.L = append(fixed.L, key)
	}
	if isValidType(tt.At(2).Type()) {
		fixed.L = append(fixed.L, val.L...)
	}
	fr.env[t] = fixed
}

func isValidType(t types.Type) bool {
	b, ok := t.(*types.Basic)
	return !(ok && b.Kind() == types.Invalid)
}

func isByteType(t types.Type) bool {
	b, ok := t.Underlying().(*types.Basic)
	return ok && (b.Kind() == types.Uint8 || b.Kind() == types.Byte)
}
