package main

import (
	"context"
	"encoding/json"
	"flag"
	"fmt"
	"go/constant"
	"go/types"
	"golang.org/x/tools/go/ssa"
	"os"
	"os/exec"
	"path/filepath"
	"sort"
	"strings"
	"sync"
	"time"
)

type Finding struct {
	ID         string `json:"id"`
	Property   string `json:"property"`
	Function   string `json:"function"`
	Obligation string `json:"obligation"`
	When       string `json:"when"`
	What       string `json:"what"`
	Replay     string `json:"replay,omitempty"`
	Fixed      bool   `json:"-"`
}

type FindingsFile struct {
	Findings []*Finding `json:"findings"`
	Fixed    []string   `json:"fixed"`
}

// per-property settings
type propCfg struct {
	Safety  bool // automatic no-panic obligations are part of this property
	Bounded *boundedCfg
}

// boundedCfg: a bounded stand-in (labelled bounded in the evidence, never counted as
// proved) that runs the real code through `go test -overlay`.
type boundedCfg struct {
	File   string // under /verif/bounded
	PkgDir string // package directory under the repository
	Test   string
	What   string
}

var propCfgs = map[string]propCfg{
	"C08": {Safety: true},
	"C15": {Safety: true},
	"C16": {Bounded: &boundedCfg{File: "C16_assembler_test.go", PkgDir: "asm", Test: "TestBoundedC16",
		What: "grammar part of C16 (lexer and parser are built by reflection, outside reach): assembly programs generated from the grammar are assembled with the real Parse, disassembled with the real ParseHandler.ToString and compared with what was written (one instruction per line, same opcode and arguments, menu batches expand to MOUT/MNEXT/MPREV .. HALT .. INCMP); numSize (floating point) is compared with the byte count of its argument"}},
	"C02": {Bounded: &boundedCfg{File: "C02_pagination_test.go", PkgDir: "render", Test: "TestBoundedC02",
		What: "content part of C02: pages shown by the real Page.Render, walked from index 0, compared with the rows (complete, in order, once; static text and ordinary menu on every page; next/previous offered exactly on inner pages; error past the end; no panic)"}},
	"C13": {Safety: true},
	"C10": {Bounded: &boundedCfg{File: "C10_fs_listing_test.go", PkgDir: "db/fs", Test: "TestBoundedC10",
		What: "listing clause of C10 on the filesystem backend (os.ReadDir and the iterator closure are outside the contracts): for every set of stored keys from a small universe and every prefix, the real Put/Dump/Next run in a scratch directory and the listing is compared with the reference - exactly the stored keys with that prefix, once each, with their values - with records of another data type and of a session whose id extends this one's stored alongside"}},
}

func main() {
	if len(os.Args) < 2 {
		fmt.Fprintln(os.Stderr, "usage: vcgo check|fn|list ...")
		os.Exit(2)
	}
	switch os.Args[1] {
	case "check":
		os.Exit(cmdCheck(os.Args[2:]))
	case "replay":
		os.Exit(cmdReplay(os.Args[2:]))
	case "fn":
		os.Exit(cmdFn(os.Args[2:]))
	case "list":
		os.Exit(cmdList(os.Args[2:]))
	default:
		fmt.Fprintln(os.Stderr, "unknown command", os.Args[1])
		os.Exit(2)
	}
}

func verifDir() string {
	if d := os.Getenv("VERIF_DIR"); d != "" {
		return d
	}
	exe, err := os.Executable()
	if err == nil {
		d := filepath.Dir(filepath.Dir(exe))
		if _, err := os.Stat(filepath.Join(d, "properties.jsonl")); err == nil {
			return d
		}
	}
	return "/verif"
}

func loadFindings(path string) (*FindingsFile, error) {
	ff := &FindingsFile{}
	b, err := os.ReadFile(path)
	if err != nil {
		if os.IsNotExist(err) {
			return ff, nil
		}
		return nil, err
	}
	if err := json.Unmarshal(b, ff); err != nil {
		return nil, err
	}
	return ff, nil
}

func cmdList(args []string) int {
	fs := flag.NewFlagSet("list", flag.ExitOnError)
	repo := fs.String("repo", "/repo", "repository root")
	prop := fs.String("prop", "", "property")
	fs.Parse(args)
	P, err := loadProgram(*repo, filepath.Join(verifDir(), "stubs"))
	if err != nil {
		fmt.Fprintln(os.Stderr, err)
		return 2
	}
	for _, k := range P.sliceFunctions(*prop) {
		fmt.Println(k)
	}
	return 0
}

// cmdFn: verify a single function verbosely (development aid).
func cmdFn(args []string) int {
	fs := flag.NewFlagSet("fn", flag.ExitOnError)
	repo := fs.String("repo", "/repo", "repository root")
	prop := fs.String("prop", "", "property slice")
	keep := fs.String("keep", "", "directory to keep .smt2 files in")
	safety := fs.Bool("safety", true, "generate safety obligations")
	all := fs.Bool("all", false, "run all solvers")
	to := fs.Duration("timeout", 10*time.Second, "per-solver timeout")
	nobatch := fs.Bool("nobatch", false, "one query per clause and path (no batching)")
	fs.Parse(args)
	P, err := loadProgram(*repo, filepath.Join(verifDir(), "stubs"))
	if err != nil {
		fmt.Fprintln(os.Stderr, err)
		return 2
	}
	ff, _ := loadFindings(filepath.Join(verifDir(), "known_findings.json"))
	rc := 0
	for _, key := range fs.Args() {
		if P.CS.Funcs[key] == nil {
			fmt.Printf("no contract for %s\n", key)
			rc = 2
			continue
		}
		r := P.verifyFunction(key, VerifyOpts{Prop: *prop, Safety: *safety, SafetyTags: []string{"C08"}, Findings: ff.Findings})
		dir := *keep
		if dir == "" {
			dir, _ = os.MkdirTemp("", "vcgo")
			defer os.RemoveAll(dir)
		} else {
			os.MkdirAll(dir, 0755)
		}
		stats := solveAll(r.Obls, SolveOpts{Dir: dir, Stage1: time.Second, Stage2: *to, All: *all, KeepFiles: *keep != "", NoBatch: *nobatch})
		fmt.Printf("== %s: %d obligations\n", key, len(r.Obls))
		for i, o := range r.Obls {
			status := o.Result
			okay := (o.Result == "unsat") != (o.Smoke || o.Canary)
			mark := "ok  "
			if !okay && o.Info {
				mark = "dead"
			} else if !okay {
				mark = "FAIL"
				rc = 1
			}
			fmt.Printf("  %s [%05d] %-60s %-8s %-7s %.2fs  %s\n", mark, i, o.Name, status, o.Solver, o.Secs, o.Pos)
			if !okay && o.Text != "" {
				fmt.Printf("         %s\n         [%s]\n", o.Text, o.Output)
			}
		}
		if r.Err != nil {
			fmt.Printf("  ERROR: %v\n%s\n", r.Err, r.ErrDetail)
			rc = 2
		}
		for _, t := range r.Trusted {
			fmt.Printf("  trusted: %s\n", t)
		}
		fmt.Printf("  solver time: %v\n", stats.secs)
	}
	return rc
}

type Evidence struct {
	PropertyID  string                 `json:"property_id"`
	Tier        string                 `json:"tier"`
	Seed        int                    `json:"seed"`
	Level       string                 `json:"level"`
	Coverage    map[string]interface{} `json:"coverage"`
	Assumptions []string               `json:"assumptions"`
	WallS       float64                `json:"wall_s"`
	Violations  int                    `json:"violations"`
}

func cmdCheck(args []string) int {
	fs := flag.NewFlagSet("check", flag.ExitOnError)
	repo := fs.String("repo", "/repo", "repository root")
	prop := fs.String("prop", "", "property id")
	tier := fs.String("tier", "quick", "quick|thorough")
	evid := fs.String("evidence", "", "evidence file (default <verif>/evidence/<prop>.json)")
	noEvidence := fs.Bool("no-evidence", false, "do not write evidence (selftest runs)")
	fs.Parse(args)
	if *prop == "" {
		fmt.Fprintln(os.Stderr, "check: -prop required")
		return 2
	}
	if t := os.Getenv("VERIF_TIER"); t != "" && *tier == "" {
		*tier = t
	}
	seed := 0
	fmt.Sscanf(os.Getenv("VERIF_SEED"), "%d", &seed)
	vd := verifDir()
	t0 := time.Now()
	P, err := loadProgram(*repo, filepath.Join(vd, "stubs"))
	if err != nil {
		fmt.Printf("UNDECIDED property=%s cannot load the source tree: %v\n", *prop, err)
		return 2
	}
	loadSecs := time.Since(t0).Seconds()
	ff, err := loadFindings(filepath.Join(vd, "known_findings.json"))
	if err != nil {
		fmt.Printf("UNDECIDED property=%s known_findings.json: %v\n", *prop, err)
		return 2
	}
	cfg := propCfgs[*prop]
	keys := P.sliceFunctions(*prop)
	if len(keys) == 0 {
		fmt.Printf("UNDECIDED property=%s no function under contract carries a clause for it\n", *prop)
		return 2
	}
	var relevant []*Finding
	for _, f := range ff.Findings {
		if f.Property == *prop {
			relevant = append(relevant, f)
		}
	}
	// generate
	tg := time.Now()
	results := make([]*FnResult, len(keys))
	var wg sync.WaitGroup
	sem := make(chan bool, 8)
	for i, k := range keys {
		wg.Add(1)
		go func(i int, k string) {
			defer wg.Done()
			sem <- true
			defer func() { <-sem }()
			results[i] = P.verifyFunction(k, VerifyOpts{Prop: *prop, Safety: cfg.Safety, AllowFnSafety: true, SafetyTags: []string{*prop}, Findings: relevant})
		}(i, k)
	}
	wg.Wait()
	genSecs := time.Since(tg).Seconds()
	var obls []*Obligation
	trusted := map[string]bool{}
	var undecided []string
	for _, r := range results {
		if r.Err != nil {
			undecided = append(undecided, fmt.Sprintf("%s: %v", r.Key, r.Err))
			if r.ErrDetail != "" {
				fmt.Fprintln(os.Stderr, r.ErrDetail)
			}
		}
		obls = append(obls, r.Obls...)
		for _, t := range r.Trusted {
			trusted[t] = true
		}
	}
	dir, _ := os.MkdirTemp("", "vcgo")
	defer os.RemoveAll(dir)
	so := SolveOpts{Dir: dir, Stage1: time.Second, Stage2: 20 * time.Second}
	if *tier == "thorough" {
		// every query goes to all three solvers (10 s each) and the answers are
		// cross-checked; a query no solver decides in that time is decided again by
		// the retry pass (race, 60 s)
		so.All = true
		so.Stage2 = 10 * time.Second
	}
	ts := time.Now()
	stats := solveAll(obls, so)
	solveSecs := time.Since(ts).Seconds()

	// classify
	var nObl, nDis, nSmoke, nSmokeOK int
	var failed []*Obligation
	var known []string
	var stale []string
	var deadPaths []string
	samples := []interface{}{}
	for _, o := range obls {
		switch {
		case o.Info:
			if o.Result == "unsat" {
				deadPaths = append(deadPaths, o.Fn+" "+o.Name+" "+o.Pos)
			}
		case o.Smoke:
			nSmoke++
			if o.Result == "unsat" {
				failed = append(failed, o)
			} else {
				nSmokeOK++
			}
		case o.Canary:
			f := findingByID(relevant, o.Finding)
			if o.Result == "unsat" {
				stale = append(stale, fmt.Sprintf("known finding %s no longer fails (%s %s)", o.Finding, o.Fn, o.Name))
			} else {
				known = append(known, fmt.Sprintf("KNOWN-FINDING: property=%s %s [%s %s]", *prop, f.What, o.Fn, f.Obligation))
			}
		default:
			nObl++
			if o.Result == "unsat" {
				nDis++
			} else {
				failed = append(failed, o)
			}
		}
		if len(samples) < 12 && !o.Smoke {
			samples = append(samples, map[string]interface{}{"function": o.Fn, "obligation": o.Name, "kind": o.Kind, "verdict": o.Result, "solver": o.Solver, "secs": round3(o.Secs), "clause": o.Text})
		}
	}
	// module-wide writer audit of representation fields
	for _, fw := range P.CS.Writers {
		in := false
		for _, t := range fw.Tags {
			if t == *prop {
				in = true
			}
		}
		if !in {
			continue
		}
		nObl++
		var offenders []string
		for key, fn := range P.Funcs {
			if fn == nil || fn.Pkg == nil || !inModule(fn.Pkg.Pkg) || strings.HasSuffix(P.Fset.Position(fn.Pos()).Filename, "_verif.go") {
				continue
			}
			writes := false
			for _, b := range fn.Blocks {
				for _, ins := range b.Instrs {
					fa, ok := ins.(*ssa.FieldAddr)
					if !ok {
						continue
					}
					st, ok := deref(fa.X.Type()).Underlying().(*types.Struct)
					if !ok || st.Field(fa.Field).Name() != fw.Field {
						continue
					}
					nt, ok := deref(fa.X.Type()).(*types.Named)
					if !ok || nt.Obj().Name() != fw.Type || nt.Obj().Pkg() == nil || pkgKeyOf(nt.Obj().Pkg().Path()) != fw.Pkg {
						continue
					}
					// a store through the field address, or the address escaping into a call / another value
					for _, r := range *fa.Referrers() {
						switch u := r.(type) {
						case *ssa.Store:
							if u.Addr == fa {
								writes = true
							}
						case *ssa.UnOp, *ssa.DebugRef:
						case *ssa.FieldAddr, *ssa.IndexAddr:
							// address of a part: any store below it counts
							writes = writes || storesBelow(u.(ssa.Value))
						default:
							writes = true
						}
					}
				}
			}
			if !writes {
				continue
			}
			ok := false
			for _, a := range fw.Allowed {
				if a == key || (strings.HasSuffix(a, "*") && strings.HasPrefix(key, strings.TrimSuffix(a, "*"))) {
					ok = true
				}
			}
			if !ok {
				offenders = append(offenders, key)
			}
		}
		sort.Strings(offenders)
		if len(offenders) == 0 {
			nDis++
			continue
		}
		failed = append(failed, &Obligation{Fn: fw.Pkg, Name: "writers:" + fw.Type + "." + fw.Field, Kind: "writers", Pos: fmt.Sprintf("%s:%d", fw.File, fw.Line), Result: "changed",
			Text:   fmt.Sprintf("only the listed functions store to %s.%s", fw.Type, fw.Field),
			Output: "functions of the module that store to the field (or let its address escape) and are not listed: " + strings.Join(offenders, ", ")})
	}
	// pinned package-level strings (texts that assumed meanings are about)
	for _, pn := range P.CS.Pins {
		in := false
		for _, t := range pn.Tags {
			if t == *prop {
				in = true
			}
		}
		if !in {
			continue
		}
		nObl++
		got, why := "", ""
		if pk := P.Pkgs[pn.Pkg]; pk == nil {
			why = "package not loaded"
		} else if g, ok := pk.Members[pn.Name].(*ssa.Global); !ok {
			why = "no such package-level variable"
		} else if !P.constGlobals[g] {
			why = "the variable is assigned outside its declaration"
		} else if k, ok := P.globalInit[g].(*ssa.Const); !ok || k.Value == nil || k.Value.Kind() != constant.String {
			why = "the initial value is not a string constant"
		} else {
			got = constant.StringVal(k.Value)
			if got != pn.Value {
				why = fmt.Sprintf("initial value is %q", got)
			}
		}
		if why == "" {
			nDis++
			continue
		}
		failed = append(failed, &Obligation{Fn: pn.Pkg, Name: "pin:" + pn.Name, Kind: "pin", Pos: fmt.Sprintf("%s:%d", pn.File, pn.Line), Result: "changed",
			Text:   fmt.Sprintf("%s == %q", pn.Name, pn.Value),
			Output: "the assumed meaning of this text (axioms / documented format) was stated for the pinned value; " + why})
	}
	// bounded stand-in on the real code
	var boundedEv map[string]interface{}
	var boundedViol []map[string]interface{}
	if cfg.Bounded != nil {
		res, err := runBounded(*repo, vd, cfg.Bounded, *tier)
		if err != nil {
			undecided = append(undecided, "bounded:"+cfg.Bounded.Test+": "+err.Error())
		} else {
			boundedEv = map[string]interface{}{"level": "bounded", "what": cfg.Bounded.What, "harness": "bounded/" + cfg.Bounded.File,
				"bound": res["bound"], "cases": res["cases"], "classes": res["classes"]}
			for _, k := range []string{"row_lists", "skipped_not_fitting", "numsize_arguments_checked"} {
				if v, ok := res[k]; ok {
					boundedEv[k] = v
				}
			}
			examples, _ := res["examples"].([]interface{})
			classes, _ := res["classes"].(map[string]interface{})
			var cnames []string
			for cn := range classes {
				cnames = append(cnames, cn)
			}
			sort.Strings(cnames)
			for _, cn := range cnames {
				if cn == "unexpected" {
					continue
				}
				var f *Finding
				for _, x := range relevant {
					if x.Obligation == "bounded:"+cn {
						f = x
					}
				}
				var ex interface{}
				for _, e := range examples {
					if m, ok := e.(map[string]interface{}); ok && m["class"] == cn {
						ex = m
					}
				}
				if f != nil {
					known = append(known, fmt.Sprintf("KNOWN-FINDING: property=%s %s [bounded harness, class %s: %v cases]", *prop, f.What, cn, classes[cn]))
				} else {
					boundedViol = append(boundedViol, map[string]interface{}{"class": cn, "example": ex, "count": classes[cn]})
				}
			}
			if un, _ := res["unexpected"].([]interface{}); len(un) > 0 {
				boundedViol = append(boundedViol, map[string]interface{}{"class": "unexpected", "examples": un, "count": classes["unexpected"]})
			}
		}
	}
	for _, k := range known {
		fmt.Println(k)
	}
	for _, s := range stale {
		fmt.Println("NOTE:", s)
	}
	rc := 0
	nviol := 0
	for _, o := range obls {
		if o.Result == "error" {
			fmt.Printf("ENGINE-ERROR every solver rejected the query for %s %s\n", o.Fn, o.Name)
			rc = 2
		}
	}
	repDir := filepath.Join(vd, "replays", *prop)
	if *noEvidence {
		repDir = filepath.Join(os.TempDir(), "vcgo-scratch-replays", *prop)
	}
	for _, o := range failed {
		if o.Result == "error" {
			continue
		}
		nviol++
		os.MkdirAll(repDir, 0755)
		path := filepath.Join(repDir, smtSym(o.Fn+"__"+o.Name)+".json")
		reproduced := writeReplay(P, o, path, *prop)
		suffix := ""
		if !reproduced {
			suffix = " no-failing-input-found"
		}
		fmt.Printf("failed obligation: %s %s (%s) verdict=%s %s\n", o.Fn, o.Name, o.Pos, o.Result, o.Text)
		fmt.Printf("VIOLATION property=%s replay=%s%s\n", *prop, path, suffix)
		rc = 1
	}
	for i, bv := range boundedViol {
		nviol++
		os.MkdirAll(repDir, 0755)
		path := filepath.Join(repDir, fmt.Sprintf("bounded_%d.json", i))
		bv["property"] = *prop
		bv["obligation"] = "bounded:" + fmt.Sprint(bv["class"])
		bv["reproduced"] = true
		bv["how_to_run"] = "go test -overlay (zz_bounded_test.go -> /verif/bounded/" + cfg.Bounded.File + ") -run " + cfg.Bounded.Test + " in " + cfg.Bounded.PkgDir
		b, _ := json.MarshalIndent(bv, "", " ")
		os.WriteFile(path, append(b, '\n'), 0644)
		fmt.Printf("failed obligation: bounded:%v (%v failing inputs on the real code)\n", bv["class"], bv["count"])
		fmt.Printf("VIOLATION property=%s replay=%s\n", *prop, path)
		rc = 1
	}
	if len(stats.disag) > 0 {
		for _, d := range stats.disag {
			fmt.Println("ENGINE-ERROR solver disagreement:", d)
		}
		if rc == 0 {
			rc = 2
		}
	}
	// A function of the slice that left the verifiable subset (or whose contract no
	// longer parses against it) has no discharged obligations any more: every
	// obligation that held for it before is now undecided. That is reported as a
	// violation of the named obligation "subset:<function>", without an input.
	for i, u := range undecided {
		nviol++
		os.MkdirAll(repDir, 0755)
		path := filepath.Join(repDir, fmt.Sprintf("subset_%d.json", i))
		b, _ := json.MarshalIndent(map[string]interface{}{"property": *prop, "obligation": "subset:" + u, "verdict": "undecided",
			"reproduced": false, "explanation": "the function can no longer be translated to verification conditions (construct outside vcgo's subset, or a contract that no longer matches the code); none of its obligations is discharged"}, "", " ")
		os.WriteFile(path, append(b, '\n'), 0644)
		fmt.Printf("failed obligation: subset:%s\n", u)
		fmt.Printf("VIOLATION property=%s replay=%s no-failing-input-found\n", *prop, path)
		rc = 1
	}
	// evidence
	var tb []string
	for t := range trusted {
		tb = append(tb, t)
	}
	sort.Strings(tb)
	tb = append(tb, globalAssumptions...)
	var fnames []string
	for _, r := range results {
		fnames = append(fnames, r.Key)
	}
	perKind := map[string]int{}
	for _, o := range obls {
		if !o.Smoke && !o.Canary {
			perKind[o.Kind]++
		}
	}
	// slowest obligations and per-function solver seconds
	type slowT struct {
		Fn   string  `json:"fn"`
		Name string  `json:"obligation"`
		Secs float64 `json:"secs"`
		Res  string  `json:"result"`
	}
	var slow []slowT
	perFn := map[string]float64{}
	for _, o := range obls {
		slow = append(slow, slowT{o.Fn, o.Name, round3(o.Secs), o.Result})
		perFn[o.Fn] += o.Secs
	}
	sort.SliceStable(slow, func(i, j int) bool { return slow[i].Secs > slow[j].Secs })
	if len(slow) > 12 {
		slow = slow[:12]
	}
	ev := Evidence{PropertyID: *prop, Tier: *tier, Seed: seed, Level: "proof", WallS: round3(time.Since(t0).Seconds()), Violations: nviol,
		Assumptions: tb,
		Coverage: map[string]interface{}{
			"obligations":              nObl,
			"discharged":               nDis,
			"checker_cmd":              fmt.Sprintf("bin/vcgo check -prop %s -tier %s -repo %s", *prop, *tier, *repo),
			"trusted_base":             tb,
			"functions_under_contract": fnames,
			"obligations_by_kind":      perKind,
			"solver_wins":              stats.wins,
			"solver_time_s":            roundMap(stats.secs),
			"load_s":                   round3(loadSecs),
			"vcgen_s":                  round3(genSecs),
			"solve_wall_s":             round3(solveSecs),
			"bounded_stand_in":         boundedEv,
			"slowest_obligations":      slow,
			"solver_s_by_function":     roundMap(perFn),
			"smoke_checks":             map[string]int{"run": nSmoke, "reachable": nSmokeOK},
			"known_findings":           known,
			"stale_findings":           stale,
			"dead_return_paths":        deadPaths,
			"undecided":                undecided,
			"samples":                  samples,
			"back_ends":                "quick: z3 5.1.0 alone for 1 s, then a race of z3 5.1.0, z3 4.8.12 and cvc5 1.0.3 (20 s, first definitive answer wins), undecided queries re-decided with few workers and 60 s; thorough: every query to all three solvers (10 s each), answers cross-checked, rest re-decided by a 60 s race",
			"contract_files":           relFiles(P.CS.Files, *repo, vd),
		}}
	if !*noEvidence {
		ep := *evid
		if ep == "" {
			ep = filepath.Join(vd, "evidence", *prop+".json")
		}
		os.MkdirAll(filepath.Dir(ep), 0755)
		b, _ := json.MarshalIndent(ev, "", " ")
		os.WriteFile(ep, append(b, '\n'), 0644)
	}
	fmt.Printf("property %s: %d functions, %d obligations, %d discharged, %d smoke ok/%d, %d known findings, %.1fs (load %.1f gen %.1f solve %.1f)\n",
		*prop, len(keys), nObl, nDis, nSmokeOK, nSmoke, len(known), time.Since(t0).Seconds(), loadSecs, genSecs, solveSecs)
	return rc
}

var globalAssumptions = []string{
	"go/packages + go/ssa (x/tools v0.29.0, naive form) build the program the compiler builds",
	"vcgo's translation of SSA instructions to SMT (mathematical Int with explicit wrap-around for every fixed-width operation)",
	"every string and slice length is < 2^31",
	"allocation never fails; termination is not proved",
	"an `unsat` answer of z3 4.8.12 / z3 5.1.0 / cvc5 1.0.3 is trusted (cross-checked in the thorough tier)",
}

func findingByID(fs []*Finding, id string) *Finding {
	for _, f := range fs {
		if f.ID == id {
			return f
		}
	}
	return &Finding{ID: id, What: id}
}

func round3(f float64) float64 { return float64(int(f*1000+0.5)) / 1000 }

func roundMap(m map[string]float64) map[string]float64 {
	o := map[string]float64{}
	for k, v := range m {
		o[k] = round3(v)
	}
	return o
}

func relFiles(fs []string, repo, vd string) []string {
	var out []string
	for _, f := range fs {
		if r, err := filepath.Rel(repo, f); err == nil && !strings.HasPrefix(r, "..") {
			out = append(out, "repo:"+r)
		} else if r, err := filepath.Rel(vd, f); err == nil {
			out = append(out, "verif:"+r)
		}
	}
	return out
}

// writeReplay records a failed obligation. Returns true when a concrete
// failing input was reproduced on the real code.
func writeReplay(P *Program, o *Obligation, path string, prop string) bool {
	rec := map[string]interface{}{
		"property":      prop,
		"function":      o.Fn,
		"obligation":    o.Name,
		"kind":          o.Kind,
		"clause":        o.Text,
		"position":      o.Pos,
		"verdict":       o.Result,
		"solver":        o.Solver,
		"solver_output": truncate(o.Output+"\n"+o.Model, 20000),
	}
	reproduced := false
	if o.Result == "sat" {
		if rp := tryReplay(P, o); rp != nil {
			rec["replay"] = rp
			if ok, _ := rp["reproduced"].(bool); ok {
				reproduced = true
			}
		}
	}
	if !reproduced {
		rec["note"] = "no-failing-input-found: the obligation is not discharged; no concrete input was reproduced on the real code"
	}
	b, _ := json.MarshalIndent(rec, "", " ")
	os.WriteFile(path, b, 0644)
	return reproduced
}

func truncate(s string, n int) string {
	if len(s) > n {
		return s[:n] + "..."
	}
	return s
}

// runBounded runs a bounded harness against the real code through an overlay
// (nothing is written to the repository) and returns its BOUNDED-RESULT record.
func runBounded(repo, vd string, b *boundedCfg, tier string) (map[string]interface{}, error) {
	dir, err := os.MkdirTemp("", "vcgo-bounded")
	if err != nil {
		return nil, err
	}
	defer os.RemoveAll(dir)
	ov := map[string]map[string]string{"Replace": {filepath.Join(repo, b.PkgDir, "zz_bounded_test.go"): filepath.Join(vd, "bounded", b.File)}}
	ob, _ := json.Marshal(ov)
	ovp := filepath.Join(dir, "ov.json")
	os.WriteFile(ovp, ob, 0644)
	ctx, cancel := context.WithTimeout(context.Background(), 20*time.Minute)
	defer cancel()
	cmd := exec.CommandContext(ctx, "go", "test", "-overlay", ovp, "-vet=off", "-count=1", "-timeout", "15m", "-run", "^"+b.Test+"$", "-v", ".")
	cmd.Dir = filepath.Join(repo, b.PkgDir)
	bound := "quick"
	if tier == "thorough" {
		bound = "thorough"
	}
	cmd.Env = append(os.Environ(), "VCGO_BOUND="+bound, "GOFLAGS=-mod=mod", "GOPROXY=off", "GOSUMDB=off", "GOTOOLCHAIN=local")
	out, _ := cmd.CombinedOutput()
	for _, l := range strings.Split(string(out), "\n") {
		if strings.HasPrefix(l, "BOUNDED-RESULT ") {
			var res map[string]interface{}
			if err := json.Unmarshal([]byte(l[len("BOUNDED-RESULT "):]), &res); err != nil {
				return nil, err
			}
			return res, nil
		}
	}
	return nil, fmt.Errorf("the harness produced no result: %s", truncate(string(out), 600))
}

// cmdReplay re-runs what a replay file records against the current tree:
//   - a concrete input (generated test): the test is run again on the real code;
//   - a bounded-harness class: the harness is run again;
//   - an obligation without an input: the function is verified again and the
//     named obligation's verdict is reported.
//
// Exit 1 if the violation shows again, 0 if it does not, 2 on usage errors.
func cmdReplay(args []string) int {
	fs := flag.NewFlagSet("replay", flag.ExitOnError)
	repo := fs.String("repo", "/repo", "repository root")
	prop := fs.String("prop", "", "property")
	file := fs.String("file", "", "replay file written by a check")
	fs.Parse(args)
	b, err := os.ReadFile(*file)
	if err != nil {
		fmt.Fprintln(os.Stderr, err)
		return 2
	}
	var rec map[string]interface{}
	if err := json.Unmarshal(b, &rec); err != nil {
		fmt.Fprintln(os.Stderr, err)
		return 2
	}
	if p, _ := rec["property"].(string); *prop == "" {
		*prop = p
	}
	vd := verifDir()
	obl, _ := rec["obligation"].(string)
	fmt.Printf("replay of %s (property %s)\n", obl, *prop)
	if strings.HasPrefix(obl, "bounded:") {
		cfg := propCfgs[*prop]
		if cfg.Bounded == nil {
			fmt.Println("no bounded harness is registered for this property")
			return 2
		}
		res, err := runBounded(*repo, vd, cfg.Bounded, "quick")
		if err != nil {
			fmt.Println("harness error:", err)
			return 2
		}
		class := strings.TrimPrefix(obl, "bounded:")
		classes, _ := res["classes"].(map[string]interface{})
		fmt.Printf("harness result: %v cases, classes %v\n", res["cases"], classes)
		if n, ok := classes[class]; ok {
			fmt.Printf("REPRODUCED: class %s occurs for %v inputs on the current tree\n", class, n)
			return 1
		}
		fmt.Printf("not reproduced: class %s does not occur on the current tree\n", class)
		return 0
	}
	P, err := loadProgram(*repo, filepath.Join(vd, "stubs"))
	if err != nil {
		fmt.Fprintln(os.Stderr, err)
		return 2
	}
	if rp, ok := rec["replay"].(map[string]interface{}); ok {
		if src, _ := rp["test_source"].(string); src != "" {
			pkgPath, _ := rp["package_path"].(string)
			if pkgPath == "" {
				if fn := P.Funcs[fmt.Sprint(rec["function"])]; fn != nil && fn.Pkg != nil {
					pkgPath = fn.Pkg.Pkg.Path()
				}
			}
			out, _ := runOverlayTest(P, pkgPath, src)
			fmt.Println(truncate(out, 3000))
			panicked := strings.Contains(out, "VCGO-PANIC")
			if rec["kind"] == "safety" {
				if panicked {
					fmt.Println("REPRODUCED: the real code panics on the recorded input")
					return 1
				}
				fmt.Println("not reproduced: no panic on the recorded input")
				return 0
			}
			fmt.Println("the recorded input was run on the current tree (results above); compare with the clause:", rec["clause"])
		}
	}
	// the obligation itself
	key, _ := rec["function"].(string)
	if strings.HasPrefix(obl, "subset:") || strings.HasPrefix(obl, "pin:") || key == "" {
		fmt.Println("this record has no obligation that can be re-decided on its own; run the property's check")
		return 2
	}
	ff, _ := loadFindings(filepath.Join(vd, "known_findings.json"))
	var relevant []*Finding
	if ff != nil {
		for _, f := range ff.Findings {
			if f.Property == *prop {
				relevant = append(relevant, f)
			}
		}
	}
	cfg := propCfgs[*prop]
	r := P.verifyFunction(key, VerifyOpts{Prop: *prop, Safety: cfg.Safety || rec["kind"] == "safety", AllowFnSafety: true, SafetyTags: []string{*prop}, Findings: relevant})
	if r.Err != nil {
		fmt.Println("the function cannot be translated:", r.Err)
		return 1
	}
	var pick []*Obligation
	for _, o := range r.Obls {
		if o.Name == obl {
			pick = append(pick, o)
		}
	}
	if len(pick) == 0 {
		fmt.Println("the obligation does not exist on the current tree (contract or code changed)")
		return 2
	}
	dir, _ := os.MkdirTemp("", "vcgo")
	defer os.RemoveAll(dir)
	solveAll(pick, SolveOpts{Dir: dir, Stage1: time.Second, Stage2: 60 * time.Second, NoBatch: true})
	rc := 0
	for _, o := range pick {
		fmt.Printf("%s %s: %s (%s, %.1fs)\n", o.Fn, o.Name, o.Result, o.Solver, o.Secs)
		if o.Result != "unsat" {
			rc = 1
		}
	}
	if rc == 1 {
		fmt.Println("REPRODUCED: the obligation is still not discharged on the current tree")
	} else {
		fmt.Println("not reproduced: the obligation is discharged on the current tree")
	}
	return rc
}

// storesBelow: some store goes through an address derived from v.
func storesBelow(v ssa.Value) bool {
	refs := v.Referrers()
	if refs == nil {
		return false
	}
	for _, r := range *refs {
		switch u := r.(type) {
		case *ssa.Store:
			if u.Addr == v {
				return true
			}
		case *ssa.FieldAddr:
			if storesBelow(u) {
				return true
			}
		case *ssa.IndexAddr:
			if storesBelow(u) {
				return true
			}
		case *ssa.UnOp, *ssa.DebugRef:
		default:
			return true
		}
	}
	return false
}
