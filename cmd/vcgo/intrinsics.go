package main

// Built-in models of a few standard-library functions whose behaviour is
// simple but not expressible (or too clumsy) as a comment contract. Each use is
// recorded in the trusted base.

import (
	"go/constant"
	"go/token"
	"go/types"
	"strings"

	"golang.org/x/tools/go/ssa"
)

type intrinsic func(c *Ctx, fr *Frame, st *State, reach T, cc *ssa.CallCommon, args []Val, pos token.Pos) (Val, bool)

var intrinsics = map[string]intrinsic{}

func init() {
	intrinsics["fmt.Errorf"] = inErrorf
	intrinsics["errors.New"] = inErrorsNew
	intrinsics["fmt.Sprintf"] = inSprintf
	intrinsics["errors.Is"] = inErrorsIs
	intrinsics["(encoding/binary.bigEndian).PutUint16"] = inPutUint(2)
	intrinsics["(encoding/binary.bigEndian).PutUint32"] = inPutUint(4)
	intrinsics["(encoding/binary.bigEndian).Uint16"] = inUint(2)
	intrinsics["(encoding/binary.bigEndian).Uint32"] = inUint(4)
}

func errorType() types.Type { return types.Universe.Lookup("error").Type() }

// freshError: a non-nil error value distinct from every existing object.
func (c *Ctx) freshError(st *State, kind string, wrapsUnknown bool) Val {
	r := c.allocRef(st, "err")
	id := c.P.typeID(types.NewPointer(types.NewNamed(types.NewTypeName(token.NoPos, nil, kind, nil), types.NewStruct(nil, nil), nil)))
	if !wrapsUnknown {
		c.sc.assume("(forall ((t Int)) (! (not (wraps " + r + " t)) :pattern ((wraps " + r + " t))))")
	}
	return Val{Typ: errorType(), L: []T{num(int64(id)), r}}
}

func constString(v ssa.Value) (string, bool) {
	if k, ok := v.(*ssa.Const); ok && k.Value != nil && k.Value.Kind() == constant.String {
		return constant.StringVal(k.Value), true
	}
	return "", false
}

func inErrorf(c *Ctx, fr *Frame, st *State, reach T, cc *ssa.CallCommon, args []Val, pos token.Pos) (Val, bool) {
	c.trust("fmt.Errorf returns a fresh non-nil error (wrapping only with %w)")
	f, ok := constString(cc.Args[0])
	w := !ok || strings.Contains(f, "%w")
	return c.freshError(st, "fmt.wrapError", w), true
}

func inErrorsNew(c *Ctx, fr *Frame, st *State, reach T, cc *ssa.CallCommon, args []Val, pos token.Pos) (Val, bool) {
	c.trust("errors.New returns a fresh non-nil error")
	return c.freshError(st, "errors.errorString", false), true
}

func inSprintf(c *Ctx, fr *Frame, st *State, reach T, cc *ssa.CallCommon, args []Val, pos token.Pos) (Val, bool) {
	c.trust("fmt.Sprintf returns an unconstrained string (no effect, no panic)")
	return c.freshVal("sprintf", tStr, st.top), true
}

func inErrorsIs(c *Ctx, fr *Frame, st *State, reach T, cc *ssa.CallCommon, args []Val, pos token.Pos) (Val, bool) {
	c.trust("errors.Is(e,t): e == t or e wraps t; errors made by fmt.Errorf without %w / errors.New wrap nothing")
	e, t := args[0], args[1]
	same := and(eq(e.L[0], t.L[0]), eq(e.L[1], t.L[1]))
	r := ite(eq(e.L[0], "0"), eq(t.L[0], "0"), or(same, app("wraps", e.L[1], t.L[1])))
	return Val{Typ: tBool, L: []T{r}}, true
}

func inPutUint(n int) intrinsic {
	return func(c *Ctx, fr *Frame, st *State, reach T, cc *ssa.CallCommon, args []Val, pos token.Pos) (Val, bool) {
		c.trust("encoding/binary.BigEndian: arithmetic definition")
		b, v := args[1], args[2].one()
		c.safe("index:BigEndian.Put:"+c.describeValue(cc.Args[1]), reach, ge(b.L[2], num(int64(n))), pos)
		for i := 0; i < n; i++ {
			sh := numBig(pow2(uint(8 * (n - 1 - i))))
			c.storeElem(st, tByte, b.L[0], slIdx(b.L[1], num(int64(i))), scalar(tByte, app("mod", app("div", v, sh), "256")))
		}
		return Val{Typ: types.NewTuple()}, true
	}
}

func inUint(n int) intrinsic {
	return func(c *Ctx, fr *Frame, st *State, reach T, cc *ssa.CallCommon, args []Val, pos token.Pos) (Val, bool) {
		c.trust("encoding/binary.BigEndian: arithmetic definition")
		b := args[1]
		c.safe("index:BigEndian.Uint:"+c.describeValue(cc.Args[1]), reach, ge(b.L[2], num(int64(n))), pos)
		var terms []T
		for i := 0; i < n; i++ {
			sh := numBig(pow2(uint(8 * (n - 1 - i))))
			e := c.loadElem(st, tByte, b.L[0], slIdx(b.L[1], num(int64(i)))).one()
			c.sc.assume(inRange("0", e, "255"))
			terms = append(terms, app("*", e, sh))
		}
		rt := types.Typ[types.Uint16]
		if n == 4 {
			rt = types.Typ[types.Uint32]
		}
		return Val{Typ: rt, L: []T{app("+", terms...)}}, true
	}
}
