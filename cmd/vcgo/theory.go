package main

// Background theories emitted on demand: strings (uninterpreted sort with
// length/byte observers and generator-instantiated extensionality), bit
// operations by bit decomposition, byte-slice/string bridges.

import (
	"fmt"
	"go/types"
	"math/big"
	"strconv"
	"strings"
)

type bigInt = big.Int

const prelude = `(declare-sort Str 0)
(declare-fun slen (Str) Int)
(declare-fun sbyte (Str Int) Int)
(declare-const str.empty Str)
(assert (= (slen str.empty) 0))
(assert (forall ((s Str)) (! (and (>= (slen s) 0) (< (slen s) 2147483648)) :pattern ((slen s)))))
(declare-fun sidx (Int Int) Int)
(assert (forall ((o Int) (i Int)) (! (= (sidx o i) (+ o i)) :pattern ((sidx o i)))))
(declare-fun bit (Int Int) Bool)
(declare-fun wraps (Int Int) Bool)
`

func (c *Ctx) nextID() int {
	c.ids++
	return c.ids
}

func (c *Ctx) strLit(s string) T {
	if s == "" {
		return "str.empty"
	}
	if n, ok := c.lits[s]; ok {
		return n
	}
	name := fmt.Sprintf("lit.%d", len(c.lits)+1)
	c.lits[s] = name
	c.sc.declare(name, sStr)
	c.sc.raw(fmt.Sprintf("; %s = %s", name, strconv.Quote(s)))
	fs := []T{eq(app("slen", name), num(int64(len(s))))}
	if len(s) <= 96 {
		for i := 0; i < len(s); i++ {
			fs = append(fs, eq(app("sbyte", name, num(int64(i))), num(int64(s[i]))))
		}
	}
	c.sc.assumeG(and(fs...))
	return name
}

// strEq is Go's string equality. Comparison with the empty string is a length
// test; otherwise SMT equality plus an extensionality instance.
func (c *Ctx) strEq(a, b T) T {
	if a == b {
		return "true"
	}
	if a == "str.empty" {
		a, b = b, a
	}
	if b == "str.empty" {
		if !strings.Contains(a, "q.") {
			c.onceFact("empty:"+a, eq(eq(app("slen", a), "0"), eq(a, "str.empty")))
		}
		return eq(app("slen", a), "0")
	}
	c.extensional(a, b)
	return eq(a, b)
}

func (c *Ctx) extensional(a, b T) {
	if strings.Contains(a, "q.") || strings.Contains(b, "q.") {
		return // bound variable: no global instance
	}
	if a == b || a == "str.empty" || b == "str.empty" {
		if a != b {
			x := a
			if x == "str.empty" {
				x = b
			}
			c.onceFact("empty:"+x, eq(eq(app("slen", x), "0"), eq(x, "str.empty")))
		}
		return
	}
	if a > b {
		a, b = b, a
	}
	c.onceFact("ext:"+a+"|"+b, imp(and(eq(app("slen", a), app("slen", b)),
		"(forall ((i Int)) (=> (and (<= 0 i) (< i (slen "+a+"))) (= (sbyte "+a+" i) (sbyte "+b+" i))))"), eq(a, b)))
}

func (c *Ctx) concat(a, b T) T {
	if a == "str.empty" {
		return b
	}
	if b == "str.empty" {
		return a
	}
	c.sc.declareFun("scat", []string{sStr, sStr}, sStr)
	// operands are named when they are not plain applications: patterns must not contain ite
	if strings.Contains(a, "(ite ") && !strings.Contains(a, "q.") {
		a = c.sc.def("cat.l", sStr, a)
	}
	if strings.Contains(b, "(ite ") && !strings.Contains(b, "q.") {
		b = c.sc.def("cat.r", sStr, b)
	}
	t := app("scat", a, b)
	la, lb := app("slen", a), app("slen", b)
	c.onceFact("cat:"+t, and(
		eq(app("slen", t), add(la, lb)),
		"(forall ((i Int)) (! (=> (and (<= 0 i) (< i "+la+")) (= (sbyte "+t+" i) (sbyte "+a+" i))) :pattern ((sbyte "+t+" i))))",
		"(forall ((i Int)) (! (=> (and (<= "+la+" i) (< i (+ "+la+" "+lb+"))) (= (sbyte "+t+" i) (sbyte "+b+" (- i "+la+")))) :pattern ((sbyte "+t+" i))))",
		imp(eq(la, "0"), eq(t, b)), imp(eq(lb, "0"), eq(t, a))))
	return t
}

func (c *Ctx) substr(s, lo, hi T) T {
	c.sc.declareFun("ssub", []string{sStr, sInt, sInt}, sStr)
	if strings.Contains(s, "(ite ") && !strings.Contains(s, "q.") {
		s = c.sc.def("sub.s", sStr, s)
	}
	t := app("ssub", s, lo, hi)
	c.onceFact("sub:"+t, imp(and(le("0", lo), le(lo, hi), le(hi, app("slen", s))), and(
		eq(app("slen", t), sub(hi, lo)),
		"(forall ((i Int)) (! (=> (and (<= 0 i) (< i (- "+hi+" "+lo+"))) (= (sbyte "+t+" i) (sbyte "+s+" (+ "+lo+" i)))) :pattern ((sbyte "+t+" i))))",
		imp(and(eq(lo, "0"), eq(hi, app("slen", s))), eq(t, s)))))
	return t
}

// strOfBytes: the string holding the current content of a byte slice.
func (c *Ctx) strOfBytes(st *State, elemT types.Type, v Val) T {
	c.sc.declareFun("str.of", []string{arr(sInt, sInt), sInt, sInt}, sStr)
	a := c.elemArray(st, elemT, 0, v.L[0])
	a = c.sc.def("bytes", arr(sInt, sInt), a)
	off, ln := v.L[1], v.L[2]
	t := app("str.of", a, off, ln)
	c.onceFact("strof:"+t, and(
		imp(ge(ln, "0"), eq(app("slen", t), ln)),
		"(forall ((i Int)) (! (=> (and (<= 0 i) (< i "+ln+")) (= (sbyte "+t+" i) (select "+a+" (+ "+off+" i)))) :pattern ((sbyte "+t+" i))))"))
	return t
}

// bytesOfStr allocates a fresh backing array holding the bytes of s.
func (c *Ctx) bytesOfStr(st *State, sliceT types.Type, s T) Val {
	el := sliceT.Underlying().(*types.Slice).Elem()
	r := c.allocRef(st, "bytes")
	a := c.sc.fresh("bytesof", arr(sInt, sInt))
	ln := app("slen", s)
	c.sc.assume("(forall ((i Int)) (! (=> (and (<= 0 i) (< i " + ln + ")) (= (select " + a + " i) (sbyte " + s + " i))) :pattern ((select " + a + " i))))")
	c.sc.assume("(forall ((i Int)) (! (and (<= 0 (select " + a + " i)) (<= (select " + a + " i) 255)) :pattern ((select " + a + " i))))")
	c.setElemArray(st, el, 0, r, a)
	// string(the new slice) is s again
	c.sc.declareFun("str.of", []string{arr(sInt, sInt), sInt, sInt}, sStr)
	c.sc.assume(eq(app("str.of", a, "0", ln), s))
	return Val{Typ: sliceT, L: []T{r, "0", ln, ln}}
}

func (c *Ctx) contentEq(st1 *State, a Val, st2 *State, b Val) T {
	sa, ok := a.Typ.Underlying().(*types.Slice)
	if !ok {
		panic(specErr{"contentEq wants slices"})
	}
	ls := leavesOf(sa.Elem())
	if isStructType(sa.Elem()) {
		panic(specErr{"contentEq on slice of structs"})
	}
	id := c.nextID()
	i := fmt.Sprintf("q.ce.%d", id)
	var cs []T
	for k := range ls {
		x := sel(c.elemArray(st1, sa.Elem(), k, a.L[0]), slIdx(a.L[1], i))
		y := sel(c.elemArray(st2, sa.Elem(), k, b.L[0]), slIdx(b.L[1], i))
		if ls[k].Sort == sStr {
			cs = append(cs, eq(x, y))
		} else {
			cs = append(cs, eq(x, y))
		}
	}
	return and(eq(a.L[2], b.L[2]), fmt.Sprintf("(forall ((%s Int)) (=> (and (<= 0 %s) (< %s %s)) %s))", i, i, i, a.L[2], and(cs...)))
}

// ---- bit operations ----

func (c *Ctx) decompose(bits uint, x T) {
	if bits > 64 {
		bits = 64
	}
	if strings.Contains(x, "q.") {
		return // mentions a bound variable: no global fact
	}
	key := fmt.Sprintf("bits%d:%s", bits, x)
	if c.factsDone[key] {
		return
	}
	c.factsDone[key] = true
	if v, ok := new(big.Int).SetString(x, 10); ok {
		var fs []T
		for i := uint(0); i < bits; i++ {
			b := app("bit", x, num(int64(i)))
			if v.Bit(int(i)) == 1 {
				fs = append(fs, b)
			} else {
				fs = append(fs, not(b))
			}
		}
		c.sc.assumeG(and(fs...))
		return
	}
	var terms []T
	for i := uint(0); i < bits; i++ {
		terms = append(terms, ite(app("bit", x, num(int64(i))), numBig(pow2(i)), "0"))
	}
	c.sc.assumeG(imp(and(le("0", x), lt(x, numBig(pow2(bits)))), eq(x, app("+", terms...))))
}

func (c *Ctx) bitOf(bits uint, x, i T) T {
	c.decompose(bits, x)
	return app("bit", x, i)
}

// bitop computes a bitwise and/or/xor/andnot on two non-negative integers of
// the given width.
func (c *Ctx) bitop(op string, bits uint, x, y T) T {
	x = c.sc.def("bx", sInt, x)
	y = c.sc.def("by", sInt, y)
	r := c.sc.fresh("b"+op, sInt)
	c.decompose(bits, x)
	c.decompose(bits, y)
	c.sc.assume(and(le("0", r), lt(r, numBig(pow2(bits)))))
	c.decompose(bits, r)
	var fs []T
	for i := uint(0); i < bits; i++ {
		n := num(int64(i))
		bx, by, br := app("bit", x, n), app("bit", y, n), app("bit", r, n)
		var v T
		switch op {
		case "and":
			v = and(bx, by)
		case "or":
			v = or(bx, by)
		case "xor":
			v = app("xor", bx, by)
		case "andnot":
			v = and(bx, not(by))
		default:
			panic("bitop " + op)
		}
		fs = append(fs, eq(br, v))
	}
	c.sc.assume(and(fs...))
	// the same, for symbolic bit positions
	{
		bx, by, br := app("bit", x, "n"), app("bit", y, "n"), app("bit", r, "n")
		var v T
		switch op {
		case "and":
			v = and(bx, by)
		case "or":
			v = or(bx, by)
		case "xor":
			v = app("xor", bx, by)
		case "andnot":
			v = and(bx, not(by))
		}
		c.sc.assume(fmt.Sprintf("(forall ((n Int)) (! (=> (and (<= 0 n) (< n %d)) (= %s %s)) :pattern (%s)))", bits, br, v, br))
	}
	return r
}

// shiftLeft: x << k within `bits` bits (x, k non-negative).
func (c *Ctx) shiftLeft(bits uint, x, k T) T {
	m := numBig(pow2(bits))
	if kv, err := strconv.Atoi(k); err == nil {
		if uint(kv) >= bits {
			return "0"
		}
		return app("mod", app("*", x, numBig(pow2(uint(kv)))), m)
	}
	r := T("0")
	for i := int(bits) - 1; i >= 0; i-- {
		r = ite(eq(k, num(int64(i))), app("mod", app("*", x, numBig(pow2(uint(i)))), m), r)
	}
	return r
}

func (c *Ctx) shiftRight(bits uint, x, k T) T {
	if kv, err := strconv.Atoi(k); err == nil {
		if uint(kv) >= bits {
			return "0"
		}
		return app("div", x, numBig(pow2(uint(kv))))
	}
	r := T("0")
	for i := int(bits) - 1; i >= 0; i-- {
		r = ite(eq(k, num(int64(i))), app("div", x, numBig(pow2(uint(i)))), r)
	}
	return r
}

func (c *Ctx) declCtx() {
	c.sc.declareFun("ctx.tag", []string{sInt, sStr}, sInt)
	c.sc.declareFun("ctx.ref", []string{sInt, sStr}, sInt)
}

// constArr: the constant array. cvc5 only accepts literal values in
// `(as const ...)`, so arrays of the (uninterpreted) string sort are fresh
// constants with a quantified definition.
func (c *Ctx) constArr(sort string, v T) T {
	if v == "false" || v == "true" || isNumeral(v) {
		return "((as const " + sort + ") " + v + ")"
	}
	key := "constarr:" + sort + ":" + v
	if n, ok := c.witnesses[key]; ok {
		return n
	}
	n := c.sc.fresh("constarr", sort)
	ks, _ := innerSort(sort)
	c.sc.assumeG(fmt.Sprintf("(forall ((i %s)) (! (= (select %s i) %s) :pattern ((select %s i))))", ks, n, v, n))
	c.witnesses[key] = n
	return n
}

func isNumeral(t T) bool {
	if t == "" {
		return false
	}
	for _, ch := range t {
		if ch < '0' || ch > '9' {
			return false
		}
	}
	return true
}

var _ = strings.Contains
