package main

// Symbolic values: every Go value is a flat vector of scalar SMT terms
// ("leaves") in a canonical order fixed by its type.

import (
	"fmt"
	"go/types"
	"math/big"
	"regexp"
	"strings"
	"sync"
)

type leafKind int

const (
	lkInt leafKind = iota // integer of some Go basic type (range from Typ)
	lkBool
	lkStr
	lkRef   // object reference (pointer, map, func, chan); 0 = nil
	lkSlRef // slice backing reference
	lkSlOff // slice offset into backing
	lkSlLen
	lkSlCap
	lkIfTag // dynamic type id of an interface value; 0 = nil interface
	lkIfRef // payload reference of an interface value
	lkFloat // unmodelled
)

type Leaf struct {
	Suffix string
	Sort   string
	Kind   leafKind
	Typ    types.Type // type of the innermost Go value this leaf belongs to
}

type Val struct {
	Typ types.Type
	L   []T
}

const maxFlatArray = 16

var byteRe = regexp.MustCompile(`\bbyte\b`)
var runeRe = regexp.MustCompile(`\brune\b`)

var leafCache = map[string][]Leaf{}
var leafMu sync.Mutex

func typeKey(t types.Type) string {
	s := types.TypeString(t, nil)
	s = strings.ReplaceAll(s, "git.defalsify.org/vise.git/", "")
	if strings.Contains(s, "byte") || strings.Contains(s, "rune") {
		s = byteRe.ReplaceAllString(s, "uint8")
		s = runeRe.ReplaceAllString(s, "int32")
	}
	return s
}

func leavesOf(t types.Type) []Leaf {
	k := typeKey(t)
	leafMu.Lock()
	l, ok := leafCache[k]
	leafMu.Unlock()
	if ok {
		return l
	}
	l = leavesOf0(t)
	leafMu.Lock()
	leafCache[k] = l
	leafMu.Unlock()
	return l
}

func leavesOf0(t types.Type) []Leaf {
	switch u := t.Underlying().(type) {
	case *types.Basic:
		switch {
		case u.Info()&types.IsBoolean != 0:
			return []Leaf{{"", sBool, lkBool, t}}
		case u.Info()&types.IsString != 0:
			return []Leaf{{"", sStr, lkStr, t}}
		case u.Info()&types.IsInteger != 0:
			return []Leaf{{"", sInt, lkInt, t}}
		case u.Info()&types.IsFloat != 0, u.Info()&types.IsComplex != 0:
			return []Leaf{{"", sInt, lkFloat, t}}
		case u.Kind() == types.UnsafePointer:
			return []Leaf{{"", sInt, lkRef, t}}
		case u.Kind() == types.UntypedNil:
			return []Leaf{{"", sInt, lkRef, t}}
		case u.Kind() == types.Invalid:
			return nil
		}
		panic(unsupported("basic type " + t.String()))
	case *types.Pointer, *types.Map, *types.Chan, *types.Signature:
		return []Leaf{{"", sInt, lkRef, t}}
	case *types.Slice:
		return []Leaf{{"#ref", sInt, lkSlRef, t}, {"#off", sInt, lkSlOff, t}, {"#len", sInt, lkSlLen, t}, {"#cap", sInt, lkSlCap, t}}
	case *types.Interface:
		return []Leaf{{"#tag", sInt, lkIfTag, t}, {"#ref", sInt, lkIfRef, t}}
	case *types.Struct:
		var out []Leaf
		for i := 0; i < u.NumFields(); i++ {
			f := u.Field(i)
			for _, l := range leavesOf(f.Type()) {
				out = append(out, Leaf{"." + f.Name() + l.Suffix, l.Sort, l.Kind, l.Typ})
			}
		}
		return out
	case *types.Array:
		if u.Len() > maxFlatArray {
			panic(unsupported(fmt.Sprintf("array value of length %d", u.Len())))
		}
		var out []Leaf
		el := leavesOf(u.Elem())
		for i := int64(0); i < u.Len(); i++ {
			for _, l := range el {
				out = append(out, Leaf{fmt.Sprintf(".%d%s", i, l.Suffix), l.Sort, l.Kind, l.Typ})
			}
		}
		return out
	case *types.Tuple:
		var out []Leaf
		for i := 0; i < u.Len(); i++ {
			for _, l := range leavesOf(u.At(i).Type()) {
				out = append(out, Leaf{fmt.Sprintf("$%d%s", i, l.Suffix), l.Sort, l.Kind, l.Typ})
			}
		}
		return out
	}
	panic(unsupported("type " + t.String()))
}

// fieldRange returns the leaf index range [lo,hi) of field i of struct type t.
func fieldRange(t types.Type, i int) (int, int) {
	st := t.Underlying().(*types.Struct)
	lo := 0
	for j := 0; j < i; j++ {
		lo += len(leavesOf(st.Field(j).Type()))
	}
	return lo, lo + len(leavesOf(st.Field(i).Type()))
}

func tupleRange(t *types.Tuple, i int) (int, int) {
	lo := 0
	for j := 0; j < i; j++ {
		lo += len(leavesOf(t.At(j).Type()))
	}
	return lo, lo + len(leavesOf(t.At(i).Type()))
}

func arrayElemRange(t types.Type, i int) (int, int) {
	at := t.Underlying().(*types.Array)
	n := len(leavesOf(at.Elem()))
	return i * n, (i + 1) * n
}

// intRange gives the inclusive range of a Go integer type (int/uint are 64 bit).
func intRange(t types.Type) (lo, hi *big.Int, ok bool) {
	b, isb := t.Underlying().(*types.Basic)
	if !isb || b.Info()&types.IsInteger == 0 {
		return nil, nil, false
	}
	bits, signed := intBits(b)
	if signed {
		return new(big.Int).Neg(pow2(bits - 1)), new(big.Int).Sub(pow2(bits-1), big.NewInt(1)), true
	}
	return big.NewInt(0), new(big.Int).Sub(pow2(bits), big.NewInt(1)), true
}

func intBits(b *types.Basic) (uint, bool) {
	switch b.Kind() {
	case types.Int8:
		return 8, true
	case types.Int16:
		return 16, true
	case types.Int32:
		return 32, true
	case types.Int64, types.Int, types.UntypedInt, types.UntypedRune:
		return 64, true
	case types.Uint8:
		return 8, false
	case types.Uint16:
		return 16, false
	case types.Uint32:
		return 32, false
	case types.Uint64, types.Uint, types.Uintptr:
		return 64, false
	}
	return 64, true
}

// wrapInt reduces a mathematical integer term into the range of Go type t.
func wrapInt(t types.Type, x T) T {
	b, isb := t.Underlying().(*types.Basic)
	if !isb || b.Info()&types.IsInteger == 0 {
		return x
	}
	bits, signed := intBits(b)
	m := numBig(pow2(bits))
	if !signed {
		return app("mod", x, m)
	}
	h := numBig(pow2(bits - 1))
	// ((x + 2^(n-1)) mod 2^n) - 2^(n-1)
	return sub(app("mod", add(x, h), m), h)
}

type unsupportedErr struct{ msg string }

func (u unsupportedErr) Error() string { return "unsupported: " + u.msg }
func unsupported(msg string) error     { return unsupportedErr{msg} }

func zeroLeaf(l Leaf) T {
	switch l.Sort {
	case sBool:
		return "false"
	case sStr:
		return "str.empty"
	}
	return "0"
}

func zeroVal(t types.Type) Val {
	ls := leavesOf(t)
	v := Val{Typ: t, L: make([]T, len(ls))}
	for i, l := range ls {
		v.L[i] = zeroLeaf(l)
	}
	return v
}

func (v Val) one() T {
	if len(v.L) != 1 {
		panic(fmt.Sprintf("value of type %v has %d leaves, expected 1", v.Typ, len(v.L)))
	}
	return v.L[0]
}

func scalar(t types.Type, x T) Val { return Val{Typ: t, L: []T{x}} }

func isPointerToStruct(t types.Type) (*types.Named, bool) {
	p, ok := t.Underlying().(*types.Pointer)
	if !ok {
		return nil, false
	}
	if _, ok := p.Elem().Underlying().(*types.Struct); ok {
		if n, ok := p.Elem().(*types.Named); ok {
			return n, true
		}
		return nil, true
	}
	return nil, false
}

func deref(t types.Type) types.Type {
	if p, ok := t.Underlying().(*types.Pointer); ok {
		return p.Elem()
	}
	return t
}

func isStructType(t types.Type) bool {
	_, ok := t.Underlying().(*types.Struct)
	return ok
}

func isArrayType(t types.Type) bool {
	_, ok := t.Underlying().(*types.Array)
	return ok
}

func isInterface(t types.Type) bool {
	_, ok := t.Underlying().(*types.Interface)
	return ok
}

func isString(t types.Type) bool {
	b, ok := t.Underlying().(*types.Basic)
	return ok && b.Info()&types.IsString != 0
}

func isInteger(t types.Type) bool {
	b, ok := t.Underlying().(*types.Basic)
	return ok && b.Info()&types.IsInteger != 0
}

func isBoolean(t types.Type) bool {
	b, ok := t.Underlying().(*types.Basic)
	return ok && b.Info()&types.IsBoolean != 0
}

func isUnsigned(t types.Type) bool {
	b, ok := t.Underlying().(*types.Basic)
	return ok && b.Info()&types.IsUnsigned != 0
}
