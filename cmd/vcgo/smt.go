package main

// SMT term construction. Terms are plain S-expression strings; a handful of
// local simplifications keep the generated conditions small and readable.

import (
	"fmt"
	"math/big"
	"sort"
	"strconv"
	"strings"
)

type T = string

const (
	sInt  = "Int"
	sBool = "Bool"
	sStr  = "Str"
)

func arr(k, v string) string { return "(Array " + k + " " + v + ")" }

func num(n int64) T {
	if n < 0 {
		return fmt.Sprintf("(- %d)", -n)
	}
	return fmt.Sprintf("%d", n)
}

func numBig(n *big.Int) T {
	if n.Sign() < 0 {
		return "(- " + new(big.Int).Neg(n).String() + ")"
	}
	return n.String()
}

func pow2(n uint) *big.Int { return new(big.Int).Lsh(big.NewInt(1), n) }

func app(f string, args ...T) T {
	return "(" + f + " " + strings.Join(args, " ") + ")"
}

func and(ts ...T) T {
	var out []T
	for _, t := range ts {
		if t == "true" {
			continue
		}
		if t == "false" {
			return "false"
		}
		out = append(out, t)
	}
	switch len(out) {
	case 0:
		return "true"
	case 1:
		return out[0]
	}
	return app("and", out...)
}

func or(ts ...T) T {
	var out []T
	for _, t := range ts {
		if t == "false" {
			continue
		}
		if t == "true" {
			return "true"
		}
		out = append(out, t)
	}
	switch len(out) {
	case 0:
		return "false"
	case 1:
		return out[0]
	}
	return app("or", out...)
}

func not(t T) T {
	switch t {
	case "true":
		return "false"
	case "false":
		return "true"
	}
	if strings.HasPrefix(t, "(not ") && balancedTail(t[5:len(t)-1]) {
		return t[5 : len(t)-1]
	}
	return app("not", t)
}

// balancedTail reports whether s is a single balanced term (atom or one
// parenthesised expression).
func balancedTail(s string) bool {
	if s == "" {
		return false
	}
	if s[0] != '(' {
		return !strings.ContainsAny(s, " ()")
	}
	d := 0
	for i, c := range s {
		switch c {
		case '(':
			d++
		case ')':
			d--
			if d == 0 && i != len(s)-1 {
				return false
			}
		}
	}
	return d == 0
}

func imp(a, b T) T {
	if a == "true" {
		return b
	}
	if a == "false" || b == "true" {
		return "true"
	}
	if b == "false" {
		return not(a)
	}
	return app("=>", a, b)
}

func eq(a, b T) T {
	if a == b {
		return "true"
	}
	return app("=", a, b)
}

func ite(c, a, b T) T {
	if c == "true" {
		return a
	}
	if c == "false" {
		return b
	}
	if a == b {
		return a
	}
	if a == "true" && b == "false" {
		return c
	}
	if a == "false" && b == "true" {
		return not(c)
	}
	return app("ite", c, a, b)
}

// slIdx: absolute index of element i of a slice with offset off. Arithmetic
// on bound variables inside index positions defeats E-matching, so symbolic
// sums go through the (axiomatised) function sidx.
func slIdx(off, i T) T {
	if off == "0" {
		return i
	}
	if i == "0" {
		return off
	}
	if isNumeral(off) && isNumeral(i) {
		return add(off, i)
	}
	return app("sidx", off, i)
}

func sel(a, i T) T          { return app("select", a, i) }
func sto(a, i, v T) T       { return app("store", a, i, v) }
func add(a, b T) T          { return app("+", a, b) }
func sub(a, b T) T          { return app("-", a, b) }
func le(a, b T) T           { return app("<=", a, b) }
func lt(a, b T) T           { return app("<", a, b) }
func ge(a, b T) T           { return app(">=", a, b) }
func gt(a, b T) T           { return app(">", a, b) }
func inRange(lo, x, hi T) T { return and(le(lo, x), le(x, hi)) }

// isAtom reports whether t is a symbol or a literal (no need to name it).
func isAtom(t T) bool {
	return !strings.ContainsAny(t, " ()") || (strings.HasPrefix(t, "(- ") && !strings.Contains(t[3:], " "))
}

// smtSym makes an arbitrary identifier safe as an SMT-LIB simple symbol.
func smtSym(s string) string {
	var b strings.Builder
	for _, c := range s {
		switch {
		case c >= 'a' && c <= 'z', c >= 'A' && c <= 'Z', c >= '0' && c <= '9', c == '_', c == '.', c == '$', c == '!':
			b.WriteRune(c)
		case c == '*':
			b.WriteString("P")
		case c == '[' || c == ']':
			b.WriteString("_")
		case c == '/' || c == '#':
			b.WriteString(".")
		default:
			b.WriteString("_")
		}
	}
	return b.String()
}

// Query is one solver query: a prelude of declarations/assumptions and one goal.
type Line struct {
	Text string
}

// Script accumulates declarations, definitions and assumptions in program
// order. An obligation records how much of the script precedes it.
type Script struct {
	lines  []string
	decls  map[string]string // name -> sort (constants) ; for dedup
	nfresh int
	// Path-local scripts: line ranges that belong to a fully explored sub-path.
	// A query keeps only the ranges its own position lies in (its ancestors),
	// plus all declarations and all lines marked global (facts about terms that
	// are valid everywhere and asserted only once).
	hidden [][2]int
	global map[int]bool
	// hideIn: range r is hidden for positions inside range o (blocks that cannot
	// reach the start of a path explored on its own)
	hideIn []hideRule
	// native: queries of this script are rendered over the solvers' native string theory
	native bool
	// proved: lines that assume a goal after its obligation was recorded
	proved map[int]bool
}

// assumeProved: a goal that later code may rely on because it is proved (or
// reported) by its own obligation. A query that decides several goals at once
// must not see these lines for its own members.
func (s *Script) assumeProved(t T) {
	if t == "true" {
		return
	}
	if s.proved == nil {
		s.proved = map[int]bool{}
	}
	s.proved[len(s.lines)] = true
	s.raw("(assert " + t + ")")
}

type hideRule struct{ r, o [2]int }

func newScript() *Script {
	return &Script{decls: map[string]string{}}
}

func (s *Script) raw(l string) { s.lines = append(s.lines, l) }

func (s *Script) declare(name, sort string) {
	if old, ok := s.decls[name]; ok {
		if old != sort {
			panic(fmt.Sprintf("redeclaration of %s: %s vs %s", name, old, sort))
		}
		return
	}
	s.decls[name] = sort
	s.raw(fmt.Sprintf("(declare-const %s %s)", name, sort))
}

func (s *Script) declareFun(name string, args []string, res string) {
	key := "fun:" + name
	if _, ok := s.decls[key]; ok {
		return
	}
	s.decls[key] = res
	s.raw(fmt.Sprintf("(declare-fun %s (%s) %s)", name, strings.Join(args, " "), res))
}

func (s *Script) fresh(prefix, sort string) T {
	s.nfresh++
	name := fmt.Sprintf("%s!%d", smtSym(prefix), s.nfresh)
	s.declare(name, sort)
	return name
}

// def names a term (definitional equality on a fresh constant).
func (s *Script) def(prefix, sort string, t T) T {
	if isAtom(t) {
		return t
	}
	n := s.fresh(prefix, sort)
	s.raw(fmt.Sprintf("(assert (= %s %s))", n, t))
	return n
}

func (s *Script) assume(t T) {
	if t == "true" {
		return
	}
	s.raw("(assert " + t + ")")
}

// assumeG: a fact that is asserted once and must be visible to every query.
func (s *Script) assumeG(t T) {
	if t == "true" {
		return
	}
	if s.global == nil {
		s.global = map[int]bool{}
	}
	s.global[len(s.lines)] = true
	s.raw("(assert " + t + ")")
}

// hideFor: the hidden ranges that do not contain position pos.
func (s *Script) hideFor(pos int) [][2]int {
	var out [][2]int
	for _, r := range s.hidden {
		if !(r[0] <= pos && pos < r[1]) {
			out = append(out, r)
		}
	}
	for _, h := range s.hideIn {
		if h.o[0] <= pos && pos < h.o[1] {
			out = append(out, h.r)
		}
	}
	return out
}

// prefixHiding renders lines [0,n) without the given ranges (declarations and
// global facts inside them are kept).
func (s *Script) prefixHiding(n int, hide [][2]int, noProvedFrom int, noStringFacts ...bool) string {
	dropStr := len(noStringFacts) > 0 && noStringFacts[0]
	if len(hide) == 0 && noProvedFrom < 0 && !dropStr {
		return s.prefix(n)
	}
	var b strings.Builder
	hi := 0
	// ranges are appended in closing order; sort a copy by start
	hs := append([][2]int(nil), hide...)
	sort.Slice(hs, func(i, j int) bool { return hs[i][0] < hs[j][0] })
	// merge nested/overlapping ranges
	var merged [][2]int
	for _, r := range hs {
		if len(merged) > 0 && r[0] < merged[len(merged)-1][1] {
			if r[1] > merged[len(merged)-1][1] {
				merged[len(merged)-1][1] = r[1]
			}
			continue
		}
		merged = append(merged, r)
	}
	for i := 0; i < n; i++ {
		if noProvedFrom >= 0 && i >= noProvedFrom && s.proved[i] {
			continue
		}
		// frame obligations compare heap cells; the generator's facts about string
		// contents (extensionality, concatenation bytes) only slow them down
		if dropStr && s.global[i] && strings.Contains(s.lines[i], "sbyte") {
			continue
		}
		for hi < len(merged) && merged[hi][1] <= i {
			hi++
		}
		if hi < len(merged) && merged[hi][0] <= i && i < merged[hi][1] {
			l := s.lines[i]
			if strings.HasPrefix(l, "(declare-") || s.global[i] {
				b.WriteString(l)
				b.WriteByte('\n')
			}
			continue
		}
		b.WriteString(s.lines[i])
		b.WriteByte('\n')
	}
	return b.String()
}

func (s *Script) mark() int { return len(s.lines) }

func (s *Script) prefix(n int) string {
	return strings.Join(s.lines[:n], "\n")
}

// ---- native string rendering (lemma functions over strings and integers) ----
//
// The generator's string theory is an uninterpreted sort with observers and
// generator-instantiated facts. For a lemma whose variables are strings and
// integers only, the same terms are given their standard meaning instead: the
// sort and its functions are *defined* by SMT-LIB strings, and every fact the
// generator emitted about them (all marked global, all theorems of the native
// theory) is dropped. Failing lemmas then come back `sat` with string models.
const nativePrelude = `(define-sort Str () String)
(define-fun slen ((s Str)) Int (str.len s))
(define-fun sbyte ((s Str) (i Int)) Int (str.to_code (str.at s i)))
(define-fun str.empty () Str "")
(define-fun scat ((a Str) (b Str)) Str (str.++ a b))
(define-fun ssub ((s Str) (lo Int) (hi Int)) Str (str.substr s lo (- hi lo)))
(define-fun str.chr ((n Int)) Str (str.from_code n))
(define-fun sidx ((o Int) (i Int)) Int (+ o i))
(declare-fun bit (Int Int) Bool)
(declare-fun wraps (Int Int) Bool)
`

func smtStringLit(s string) string {
	var b strings.Builder
	b.WriteByte('"')
	for i := 0; i < len(s); i++ {
		c := s[i]
		switch {
		case c == '"':
			b.WriteString(`""`)
		case c >= 0x20 && c < 0x7f && c != '\\':
			b.WriteByte(c)
		default:
			fmt.Fprintf(&b, "\\u{%x}", c)
		}
	}
	b.WriteByte('"')
	return b.String()
}

func (s *Script) nativePrefix(n int, hide [][2]int, noProvedFrom int) string {
	var b strings.Builder
	b.WriteString(nativePrelude)
	hidden := func(i int) bool {
		for _, r := range hide {
			if r[0] <= i && i < r[1] {
				return true
			}
		}
		return false
	}
	for i := 0; i < n; i++ {
		l := s.lines[i]
		if l == prelude || strings.HasPrefix(l, "(declare-sort Str") {
			continue
		}
		if noProvedFrom >= 0 && i >= noProvedFrom && s.proved[i] {
			continue
		}
		if s.global[i] {
			continue // a fact of the generator's string/bit theory
		}
		if strings.HasPrefix(l, "(declare-fun scat ") || strings.HasPrefix(l, "(declare-fun ssub ") || strings.HasPrefix(l, "(declare-fun str.chr ") {
			continue
		}
		if strings.HasPrefix(l, "; lit.") {
			// "; lit.N = <Go quoted string>"
			eq := strings.Index(l, " = ")
			name := l[2:eq]
			if v, err := strconv.Unquote(l[eq+3:]); err == nil {
				b.WriteString("(assert (= " + name + " " + smtStringLit(v) + "))\n")
			}
			continue
		}
		if hidden(i) && !strings.HasPrefix(l, "(declare-") {
			continue
		}
		b.WriteString(l)
		b.WriteByte('\n')
	}
	return b.String()
}
