package main

// Replay of solver models against the real code. The model's parameter values
// are concretised into a Go test that is injected into the package with
// `go test -overlay` (nothing is written to the repository), the real function
// is called under recover(), and the observed behaviour is compared with what
// the failed obligation predicts (a panic for safety obligations; the model's
// result values for postconditions).

import (
	"context"
	"encoding/json"
	"fmt"
	"go/types"
	"os"
	"os/exec"
	"path/filepath"
	"regexp"
	"strconv"
	"strings"
	"time"

	"golang.org/x/tools/go/ssa"
)

type replayInfo struct {
	fn     *ssa.Function
	params []Val
	names  []string
	result Val
	entry  *State
	exit   *State
	ctx    *Ctx
}

const maxReplayLen = 4096

// getValues re-runs z3 on the failed query and evaluates the given terms in
// the model it finds.
func getValues(o *Obligation, extra []string, terms []string) (map[string]string, error) {
	if len(terms) == 0 {
		return map[string]string{}, nil
	}
	dir, err := os.MkdirTemp("", "vcgo-replay")
	if err != nil {
		return nil, err
	}
	defer os.RemoveAll(dir)
	var b strings.Builder
	b.WriteString("(set-option :produce-models true)\n(set-logic ALL)\n")
	b.WriteString(o.sc.prefix(o.mark))
	b.WriteString("\n")
	for _, l := range o.sc.lines[o.mark:] {
		if strings.HasPrefix(l, "(declare-") {
			b.WriteString(l + "\n")
		}
	}
	b.WriteString("(assert " + o.cond + ")\n")
	for _, e := range extra {
		b.WriteString("(assert " + e + ")\n")
	}
	b.WriteString("(check-sat)\n")
	for _, t := range terms {
		b.WriteString("(get-value (" + t + "))\n")
	}
	file := filepath.Join(dir, "q.smt2")
	os.WriteFile(file, []byte(b.String()), 0644)
	ctx, cancel := context.WithTimeout(context.Background(), 20*time.Second)
	defer cancel()
	out, _ := exec.CommandContext(ctx, "z3-new", "-smt2", "-T:15", file).CombinedOutput()
	lines := strings.Split(strings.TrimSpace(string(out)), "\n")
	if len(lines) == 0 || strings.TrimSpace(lines[0]) != "sat" {
		return nil, fmt.Errorf("solver did not return a model: %s", firstLines(string(out), 2))
	}
	res := map[string]string{}
	// each get-value answer is one s-expression "((term value))", possibly spanning lines
	rest := strings.Join(lines[1:], " ")
	idx := 0
	for _, t := range terms {
		for idx < len(rest) && rest[idx] != '(' {
			idx++
		}
		if idx >= len(rest) {
			break
		}
		end := matchClose(rest, idx)
		ans := rest[idx : end+1]
		idx = end + 1
		// strip "((" term " " value "))"
		inner := strings.TrimSpace(ans[1 : len(ans)-1])
		inner = strings.TrimSpace(inner[1 : len(inner)-1])
		val := strings.TrimSpace(strings.TrimPrefix(inner, t))
		res[t] = val
	}
	return res, nil
}

var negRe = regexp.MustCompile(`^\(-\s+(\d+)\)$`)

func modelInt(s string) (int64, bool) {
	s = strings.TrimSpace(s)
	if m := negRe.FindStringSubmatch(s); m != nil {
		n, err := strconv.ParseInt(m[1], 10, 64)
		return -n, err == nil
	}
	n, err := strconv.ParseInt(s, 10, 64)
	return n, err == nil
}

// concretiser builds Go source for parameter values from a model.
type concretiser struct {
	o     *Obligation
	ri    *replayInfo
	fixed []string // assertions pinning already-read values
	err   error
	pkg   *types.Package
}

func (k *concretiser) eval(terms ...string) []string {
	m, err := getValues(k.o, k.fixed, terms)
	if err != nil {
		k.err = err
		return make([]string, len(terms))
	}
	out := make([]string, len(terms))
	for i, t := range terms {
		out[i] = m[t]
		if _, ok := modelInt(m[t]); ok || m[t] == "true" || m[t] == "false" {
			k.fixed = append(k.fixed, eq(t, m[t]))
		}
	}
	return out
}

func (k *concretiser) intOf(term string) int64 {
	v := k.eval(term)
	n, ok := modelInt(v[0])
	if !ok && k.err == nil {
		k.err = fmt.Errorf("model value of %s is not an integer: %q", term, v[0])
	}
	return n
}

func (k *concretiser) stringLit(term string) string {
	n := k.intOf(app("slen", term))
	if k.err != nil {
		return `""`
	}
	if n > maxReplayLen {
		k.err = fmt.Errorf("model wants a string of %d bytes (skipped)", n)
		return `""`
	}
	var terms []string
	for i := int64(0); i < n; i++ {
		terms = append(terms, app("sbyte", term, num(i)))
	}
	vals := k.eval(terms...)
	bs := make([]byte, n)
	for i := range bs {
		v, _ := modelInt(vals[i])
		bs[i] = byte(v)
	}
	return strconv.Quote(string(bs))
}

func (k *concretiser) typeName(t types.Type) string {
	return types.TypeString(t, func(p *types.Package) string {
		if p == k.pkg {
			return ""
		}
		return p.Name()
	})
}

// value returns Go source for a value of type v.Typ whose leaves are v.L in
// the entry state.
func (k *concretiser) value(v Val) string {
	if k.err != nil {
		return "nil"
	}
	c := k.ri.ctx
	st := k.ri.entry
	switch u := v.Typ.Underlying().(type) {
	case *types.Basic:
		switch {
		case isBoolean(v.Typ):
			return k.typeName(v.Typ) + "(" + k.eval(v.one())[0] + ")"
		case isString(v.Typ):
			return k.typeName(v.Typ) + "(" + k.stringLit(v.one()) + ")"
		case isInteger(v.Typ):
			return fmt.Sprintf("%s(%d)", k.typeName(v.Typ), k.intOf(v.one()))
		}
	case *types.Slice:
		ref := k.intOf(v.L[0])
		n := k.intOf(v.L[2])
		if ref == 0 {
			return "nil"
		}
		if n > maxReplayLen {
			k.err = fmt.Errorf("model wants a slice of %d elements (skipped)", n)
			return "nil"
		}
		var elems []string
		for i := int64(0); i < n; i++ {
			ev := c.loadElem(st, u.Elem(), v.L[0], slIdx(v.L[1], num(i)))
			elems = append(elems, k.value(ev))
		}
		return k.typeName(v.Typ) + "{" + strings.Join(elems, ", ") + "}"
	}
	k.err = fmt.Errorf("cannot concretise a value of type %v", v.Typ)
	return "nil"
}

func tryReplay(P *Program, o *Obligation) map[string]interface{} {
	ri := o.replay
	if ri == nil {
		return nil
	}
	fn := ri.fn
	if fn.Signature.Recv() != nil {
		return map[string]interface{}{"reproduced": false, "reason": "replay of methods is not implemented; see solver model"}
	}
	k := &concretiser{o: o, ri: ri, pkg: fn.Pkg.Pkg}
	var args []string
	var decl []string
	for i, p := range ri.params {
		src := k.value(p)
		decl = append(decl, fmt.Sprintf("\targ%d := %s", i, src))
		args = append(args, fmt.Sprintf("arg%d", i))
	}
	if k.err != nil {
		return map[string]interface{}{"reproduced": false, "reason": k.err.Error()}
	}
	nres := fn.Signature.Results().Len()
	var rs []string
	for i := 0; i < nres; i++ {
		rs = append(rs, fmt.Sprintf("r%d", i))
	}
	call := fmt.Sprintf("%s(%s)", fn.Name(), strings.Join(args, ", "))
	if nres > 0 {
		call = strings.Join(rs, ", ") + " := " + call
	}
	var prints []string
	for i := 0; i < nres; i++ {
		prints = append(prints, fmt.Sprintf("\tfmt.Printf(\"VCGO-RESULT %d %%s\\n\", vcgoShow(r%d))", i, i))
	}
	src := fmt.Sprintf(`package %s

import (
	"fmt"
	"testing"
)

func vcgoShow(v interface{}) string {
	switch x := v.(type) {
	case error:
		if x == nil {
			return "error:nil"
		}
		return "error:nonnil:" + fmt.Sprintf("%%q", x.Error())
	case nil:
		return "nil"
	case []byte:
		if x == nil {
			return "bytes:nil"
		}
		return fmt.Sprintf("bytes:%%d:%%x", len(x), x)
	case string:
		return fmt.Sprintf("string:%%d:%%q", len(x), x)
	}
	return fmt.Sprintf("%%T:%%v", v, v)
}

func TestVcgoReplay(t *testing.T) {
	defer func() {
		if r := recover(); r != nil {
			fmt.Printf("VCGO-PANIC %%v\n", r)
		}
	}()
%s
	%s
%s
	fmt.Println("VCGO-RETURNED")
}
`, fn.Pkg.Pkg.Name(), strings.Join(decl, "\n"), call, strings.Join(prints, "\n"))
	out, err := runOverlayTest(P, fn.Pkg.Pkg.Path(), src)
	rec := map[string]interface{}{"test_source": src, "package_path": fn.Pkg.Pkg.Path(), "output": truncate(out, 4000)}
	if err != nil {
		rec["error"] = err.Error()
	}
	panicked := strings.Contains(out, "VCGO-PANIC")
	returned := strings.Contains(out, "VCGO-RETURNED")
	switch {
	case o.Kind == "safety":
		rec["expected"] = "panic"
		rec["reproduced"] = panicked
	case panicked:
		rec["expected"] = "postcondition violated on return"
		rec["reproduced"] = false
		rec["note"] = "the real code panicked on the model's input"
	case returned:
		// compare the observed results with the model's prediction
		match, detail := k.compareResults(out)
		rec["expected"] = "results as predicted by the model (which violate the clause)"
		rec["comparison"] = detail
		rec["reproduced"] = match
	default:
		rec["reproduced"] = false
	}
	return rec
}

// compareResults checks the observable part of every result (nil-ness of
// errors, integers, booleans, lengths and bytes of strings / byte slices)
// against the model.
func (k *concretiser) compareResults(out string) (bool, []string) {
	rs := k.ri.fn.Signature.Results()
	var detail []string
	all := true
	for i := 0; i < rs.Len(); i++ {
		lo, hi := tupleRange(rs, i)
		v := Val{Typ: rs.At(i).Type(), L: k.ri.result.L[lo:hi]}
		re := regexp.MustCompile(fmt.Sprintf(`(?m)^VCGO-RESULT %d (.*)$`, i))
		m := re.FindStringSubmatch(out)
		if m == nil {
			all = false
			continue
		}
		obs := m[1]
		var want string
		switch {
		case isInterface(v.Typ):
			if k.intOf(v.L[0]) == 0 {
				want = "error:nil"
			} else {
				want = "error:nonnil"
			}
			if want == "error:nil" {
				if obs != "error:nil" && obs != "nil" {
					all = false
				}
			} else if !strings.HasPrefix(obs, want) {
				all = false
			}
		case isString(v.Typ):
			want = "string:" + strconv.FormatInt(k.intOf(app("slen", v.one())), 10) + ":"
			if !strings.HasPrefix(obs, want) {
				all = false
			}
		case isInteger(v.Typ):
			want = fmt.Sprintf("%s:%d", v.Typ.String(), k.intOf(v.one()))
			if !strings.HasSuffix(obs, fmt.Sprintf(":%d", k.intOf(v.one()))) {
				all = false
			}
		case isBoolean(v.Typ):
			want = "bool:" + k.eval(v.one())[0]
			if obs != want {
				all = false
			}
		default:
			if _, ok := v.Typ.Underlying().(*types.Slice); ok {
				if k.intOf(v.L[0]) == 0 {
					want = "bytes:nil"
				} else {
					want = fmt.Sprintf("bytes:%d:", k.intOf(v.L[2]))
				}
				if !strings.HasPrefix(obs, want) {
					all = false
				}
			} else {
				want = "(not compared)"
			}
		}
		detail = append(detail, fmt.Sprintf("result%d observed %s ; model %s", i, obs, want))
	}
	if k.err != nil {
		return false, append(detail, k.err.Error())
	}
	return all, detail
}

// runOverlayTest injects src as an extra _test.go file of the package and runs
// it against the real code.
func runOverlayTest(P *Program, pkgPath string, src string) (string, error) {
	dir, err := os.MkdirTemp("", "vcgo-overlay")
	if err != nil {
		return "", err
	}
	defer os.RemoveAll(dir)
	rel := strings.TrimPrefix(pkgPath, modulePath)
	pkgDir := filepath.Join(P.Repo, rel)
	tf := filepath.Join(dir, "vcgo_replay_test.go")
	os.WriteFile(tf, []byte(src), 0644)
	ov := map[string]interface{}{"Replace": map[string]string{filepath.Join(pkgDir, "vcgo_replay_test.go"): tf}}
	ob, _ := json.Marshal(ov)
	of := filepath.Join(dir, "overlay.json")
	os.WriteFile(of, ob, 0644)
	ctx, cancel := context.WithTimeout(context.Background(), 120*time.Second)
	defer cancel()
	cmd := exec.CommandContext(ctx, "go", "test", "-overlay", of, "-vet=off", "-v", "-count=1", "-timeout", "60s", "-run", "^TestVcgoReplay$", ".")
	cmd.Dir = pkgDir
	cmd.Env = append(os.Environ(), "GOFLAGS=-mod=mod", "GOPROXY=off", "GOSUMDB=off", "GOTOOLCHAIN=local")
	out, err := cmd.CombinedOutput()
	return string(out), err
}
